"""C08/C09 — the parameters of the TLS models (coq/Gen/ParamsC08.v, coq/Gen/ParamsC09.v), read off the tree under test.

Every parameter is obtained twice:

  * by a reader of the source (`ast`).  It recognises a fragment of shapes that is closed under harmless refactorings:
    alpha-renaming of locals and exception variables (patterns with `$x` variables), `match` statement vs
    if/isinstance chain (is_ssl_eof_error is *evaluated* symbolically on the exception universe of the model, whatever
    its control flow), try/else vs the flattened form (handlers that all end in continue/raise/return), early returns,
    `if a and b:` vs nested ifs, one private helper of the same class followed one level, pure local aliases.
    Every rewriting step preserves the meaning of the code; nothing is guessed: a shape outside the fragment is an error
    of the reader (not of the check);

  * by behavioural probes: the real transports of the tree under test driven by a scripted SSL object / scripted SSL
    socket over scripted transports (no OpenSSL, no time), one probe per point of the finite domain on which the model
    consults the parameter.  The probes ALWAYS run.

A parameter value predicts, through a Python mirror of the model's use of it, the outcome of every probe.
  - reader succeeded: its value must predict all probes (otherwise: fail closed, the reader and the code disagree);
  - reader failed: the first value of a fixed, finite candidate list (ordered, the shapes of the tree at HEAD first)
    that predicts all probes is taken -- any two values that predict all probes are interchangeable in the model,
    because the probes cover the whole domain on which the model consults the parameter -- and the definition is marked
    `(behavioural)` in the generated file and in the evidence;
  - no candidate predicts the probes: fail closed (the behaviour is outside what the model can express).
"""
from __future__ import annotations

import ast
import copy
import itertools
import os
import textwrap

from common import runner

TranslateError = runner.TranslateError
_TLS = "src/easynetwork/lowlevel/api_async/transports/tls.py"
_SOCK = "src/easynetwork/lowlevel/api_sync/transports/socket.py"
_UTILS = "src/easynetwork/lowlevel/_utils.py"


def _fail(msg):
    raise TranslateError(msg)


# ====================================================================================== 1. tolerant reading of the source

_PV = "_PV_"
_SKIP_FIELDS = {"ctx", "lineno", "col_offset", "end_lineno", "end_col_offset", "type_comment", "kind"}


def pat(src, kind="stmt"):
    """pattern: python source in which `$x` stands for any (local) name, bound consistently"""
    tree = ast.parse(textwrap.dedent(src.replace("$", _PV)))
    if kind == "expr":
        return tree.body[0].value
    if kind == "stmts":
        return tree.body
    return tree.body[0]


def pmatch(p, n, env):
    if isinstance(p, list):
        return isinstance(n, list) and len(p) == len(n) and all(pmatch(a, b, env) for a, b in zip(p, n))
    if isinstance(p, ast.AST):
        if isinstance(p, ast.Name) and p.id.startswith(_PV):
            return isinstance(n, ast.Name) and env.setdefault(p.id, n.id) == n.id
        if type(p) is not type(n):
            return False
        for f in p._fields:
            if f in _SKIP_FIELDS:
                continue
            a, b = getattr(p, f, None), getattr(n, f, None)
            if f == "name" and isinstance(p, ast.ExceptHandler) and isinstance(a, str) and a.startswith(_PV):
                if not isinstance(b, str) or env.setdefault(a, b) != b:
                    return False
                continue
            if not pmatch(a, b, env):
                return False
        return True
    return type(p) is type(n) and p == n


def matches(src, node, env=None, kind="stmt"):
    return pmatch(pat(src, kind), node, {} if env is None else env)


def _parse(rel):
    path = os.path.join(runner.REPO, rel)
    try:
        return ast.parse(open(path).read())
    except (OSError, SyntaxError) as exc:
        _fail(f"{rel}: {exc}")


def find(tree, qualname, path):
    """(node, enclosing class or None); the last definition wins (typing overload stubs come first)"""
    node, cls = tree, None
    for part in qualname.split("."):
        nxt = None
        for ch in ast.iter_child_nodes(node):
            if isinstance(ch, (ast.FunctionDef, ast.AsyncFunctionDef, ast.ClassDef)) and ch.name == part:
                nxt = ch
        if nxt is None:
            _fail(f"{path}: {qualname} not found")
        if isinstance(node, ast.ClassDef):
            cls = node
        node = nxt
    return node, cls


def _body(fn):
    b = fn.body
    if b and isinstance(b[0], ast.Expr) and isinstance(b[0].value, ast.Constant) and isinstance(b[0].value.value, str):
        return b[1:]
    return b


# ---- (a) a private helper of the same class, followed one level

def _simple_arg(e):
    while isinstance(e, ast.Attribute):
        e = e.value
    return isinstance(e, (ast.Name, ast.Constant))


class _Subst(ast.NodeTransformer):
    def __init__(self, mapping):
        self.mapping = mapping

    def visit_Name(self, n):
        if n.id in self.mapping and isinstance(n.ctx, ast.Load):
            return copy.deepcopy(self.mapping[n.id])
        return n


def _helper_of(call, methods, me):
    """call = self.h(simple args) with h a plain method of the same class: (h, {param: arg}) else None"""
    if not (isinstance(call, ast.Call) and isinstance(call.func, ast.Attribute) and isinstance(call.func.value, ast.Name)
            and call.func.value.id == "self" and call.func.attr in methods and call.func.attr != me and not call.keywords
            and all(_simple_arg(a) for a in call.args)):
        return None
    h = methods[call.func.attr]
    a = h.args
    if h.decorator_list or a.posonlyargs or a.kwonlyargs or a.vararg or a.kwarg or a.defaults or not a.args:
        return None
    if a.args[0].arg != "self" or len(a.args) != len(call.args) + 1:
        return None
    if any(isinstance(n, (ast.FunctionDef, ast.AsyncFunctionDef, ast.Lambda, ast.Yield, ast.YieldFrom, ast.Global, ast.Nonlocal))
           for st in _body(h) for n in ast.walk(st)):
        return None
    if any(isinstance(n, ast.Name) and isinstance(n.ctx, (ast.Store, ast.Del)) for st in _body(h) for n in ast.walk(st)):
        return None     # a helper with locals of its own is not followed
    return h, {p.arg: arg for p, arg in zip(a.args[1:], call.args)}


def inline_helpers(fn, cls):
    """returns (copy of fn with the qualifying helper calls replaced by the helper's body, names of the helpers followed)"""
    fn = copy.deepcopy(fn)
    if cls is None:
        return fn, []
    methods = {n.name: n for n in cls.body if isinstance(n, (ast.FunctionDef, ast.AsyncFunctionDef))}
    used = []

    class Exprs(ast.NodeTransformer):
        def _try(self, call, awaited):
            got = _helper_of(call, methods, fn.name)
            if got is None:
                return None
            h, mapping = got
            if isinstance(h, ast.AsyncFunctionDef) != awaited:
                return None
            b = _body(h)
            if len(b) == 1 and isinstance(b[0], ast.Return) and b[0].value is not None:
                used.append(h.name)
                return _Subst(mapping).visit(copy.deepcopy(b[0].value))
            return None

        def visit_Await(self, n):
            if isinstance(n.value, ast.Call):
                r = self._try(n.value, True)
                if r is not None:
                    return r
            self.generic_visit(n)
            return n

        def visit_Call(self, n):
            r = self._try(n, False)
            if r is not None:
                return r
            self.generic_visit(n)
            return n

    def stmts(block):
        out = []
        for st in block:
            call, awaited = None, False
            if isinstance(st, ast.Expr):
                v = st.value
                if isinstance(v, ast.Await):
                    v, awaited = v.value, True
                if isinstance(v, ast.Call):
                    call = v
            got = _helper_of(call, methods, fn.name) if call is not None else None
            if got is not None:
                h, mapping = got
                b = _body(h)
                if (isinstance(h, ast.AsyncFunctionDef) == awaited and b
                        and not any(isinstance(n, ast.Return) for s_ in b for n in ast.walk(s_))):
                    used.append(h.name)
                    out.extend(_Subst(mapping).visit(copy.deepcopy(s_)) for s_ in b)
                    continue
            for f in ("body", "orelse", "finalbody"):
                if isinstance(getattr(st, f, None), list) and getattr(st, f) and isinstance(getattr(st, f)[0], ast.stmt):
                    setattr(st, f, stmts(getattr(st, f)))
            for h_ in getattr(st, "handlers", []):
                h_.body = stmts(h_.body)
            for c_ in getattr(st, "cases", []):
                c_.body = stmts(c_.body)
            out.append(st)
        return out

    fn.body = stmts(fn.body)         # statement helpers first (the originals of the statements are visited once)
    fn = Exprs().visit(fn)           # then expression helpers; inlined code is not visited again by construction of
    ast.fix_missing_locations(fn)    # NodeTransformer (the replacement is returned, not re-entered)
    return fn, sorted(set(used))


# ---- (b) pure local aliases

def _stores(fn):
    out = {}
    for n in ast.walk(fn):
        if isinstance(n, ast.Name) and isinstance(n.ctx, (ast.Store, ast.Del)):
            out.setdefault(n.id, []).append(n.lineno)
        elif isinstance(n, ast.ExceptHandler) and n.name:
            out.setdefault(n.name, []).append(n.lineno)
        elif isinstance(n, ast.arg):
            out.setdefault(n.arg, []).append(0)
    return out


def _attrs_assigned_outside_init(cls):
    out = set()
    for m in cls.body:
        if isinstance(m, (ast.FunctionDef, ast.AsyncFunctionDef)) and m.name != "__init__":
            for n in ast.walk(m):
                if isinstance(n, ast.Attribute) and isinstance(n.ctx, (ast.Store, ast.Del)) and isinstance(n.value, ast.Name) \
                        and n.value.id == "self":
                    out.add(n.attr)
    return out


def propagate_aliases(fn, cls):
    """`v = <pure expression>` at the top level of the function, v assigned once, the expression made of parameters /
    locals not assigned afterwards, `self.X` with X only ever assigned by __init__ (and fn is not __init__), `not`,
    constants: every later use of v is replaced by the expression and the assignment is dropped."""
    fn = copy.deepcopy(fn)
    stores = _stores(fn)
    unstable = _attrs_assigned_outside_init(cls) if cls is not None else None

    def pure(e, line):
        if isinstance(e, ast.Constant):
            return True
        if isinstance(e, ast.UnaryOp) and isinstance(e.op, ast.Not):
            return pure(e.operand, line)
        if isinstance(e, ast.Name):
            return e.id != "self" and e.id in stores and all(ln < line for ln in stores[e.id])
        if isinstance(e, ast.Attribute) and isinstance(e.value, ast.Name) and e.value.id == "self":
            return unstable is not None and fn.name != "__init__" and e.attr not in unstable
        return False

    changed = True
    while changed:
        changed = False
        for i, st in enumerate(fn.body):
            tgt = val = None
            if isinstance(st, ast.Assign) and len(st.targets) == 1 and isinstance(st.targets[0], ast.Name):
                tgt, val = st.targets[0].id, st.value
            elif isinstance(st, ast.AnnAssign) and isinstance(st.target, ast.Name) and st.value is not None:
                tgt, val = st.target.id, st.value
            if tgt is None or len(stores.get(tgt, [])) != 1 or not pure(val, st.lineno):
                continue
            if isinstance(val, ast.Name) and val.id == tgt:
                continue
            uses = [n for n in ast.walk(fn) if isinstance(n, ast.Name) and n.id == tgt and isinstance(n.ctx, ast.Load)]
            if not uses or any(u.lineno <= st.lineno for u in uses):
                continue
            if any(isinstance(n, (ast.FunctionDef, ast.AsyncFunctionDef)) for n in ast.walk(fn) if n is not fn):
                continue
            rest = [_Subst({tgt: val}).visit(s_) for s_ in fn.body[i + 1:]]
            fn.body = fn.body[:i] + rest
            stores.pop(tgt, None)
            changed = True
            break
    return fn


# ---- (c) control flow: try/else vs flattened, trailing continue, early returns

def _terminates(stmts):
    return bool(stmts) and isinstance(stmts[-1], (ast.Raise, ast.Continue, ast.Return, ast.Break))


def negate(t):
    if isinstance(t, ast.UnaryOp) and isinstance(t.op, ast.Not):
        return t.operand
    flip = {ast.Lt: ast.GtE, ast.GtE: ast.Lt, ast.Gt: ast.LtE, ast.LtE: ast.Gt, ast.Eq: ast.NotEq, ast.NotEq: ast.Eq,
            ast.Is: ast.IsNot, ast.IsNot: ast.Is, ast.In: ast.NotIn, ast.NotIn: ast.In}
    if isinstance(t, ast.Compare) and len(t.ops) == 1 and type(t.ops[0]) in flip:
        return ast.Compare(left=t.left, ops=[flip[type(t.ops[0])]()], comparators=t.comparators)
    return ast.UnaryOp(op=ast.Not(), operand=t)


def simplify(t):
    if isinstance(t, ast.UnaryOp) and isinstance(t.op, ast.Not):
        inner = simplify(t.operand)
        n = negate(inner)
        return n
    return t


def conjuncts(test):
    """the test as a list of conjuncts (a and b, not (a or b)), negations pushed into comparisons"""
    test = simplify(test)
    if isinstance(test, ast.BoolOp) and isinstance(test.op, ast.And):
        return [c for v in test.values for c in conjuncts(v)]
    if isinstance(test, ast.UnaryOp) and isinstance(test.op, ast.Not) and isinstance(test.operand, ast.BoolOp) \
            and isinstance(test.operand.op, ast.Or):
        return [c for v in test.operand.values for c in conjuncts(negate(v))]
    return [test]


def if_chain(node):
    """an else-less `if` whose body is again a single else-less `if` ...: (all conjuncts, innermost body)"""
    tests = []
    while True:
        tests.extend(conjuncts(node.test))
        if len(node.body) == 1 and isinstance(node.body[0], ast.If) and not node.body[0].orelse:
            node = node.body[0]
        else:
            return tests, node.body


def _names_used(fn, name):
    return [n for n in ast.walk(fn) if isinstance(n, ast.Name) and n.id == name]


def restructure(fn):
    """semantics-preserving normal form of the control flow (on a copy):
       - `try: B except..: H_i` with every H_i ending in raise/continue/return/break, no else/finally, followed by S
         ==> `try: B except..: H_i else: S`
       - `try: r = E except..: ... else: return r` (r used nowhere else) ==> `try: return E except..: ...`
       - a `continue` in tail position of a loop body is dropped
       - in tail position of the function: `if C: return` followed by S ==> `if not C: S`"""
    fn = copy.deepcopy(fn)

    def blocks_of(st):
        for f in ("body", "orelse", "finalbody"):
            b = getattr(st, f, None)
            if isinstance(b, list) and b and isinstance(b[0], ast.stmt):
                yield f, b
        for h in getattr(st, "handlers", []):
            yield "handler", h.body

    def flatten(block):
        for i, st in enumerate(block):
            if (isinstance(st, ast.Try) and not st.orelse and not st.finalbody and st.handlers and i + 1 < len(block)
                    and all(_terminates(h.body) for h in st.handlers) and not _terminates(st.body)):
                st.orelse = block[i + 1:]
                del block[i + 1:]
                break
        for st in block:
            if isinstance(st, (ast.FunctionDef, ast.AsyncFunctionDef, ast.ClassDef)):
                continue
            for _f, b in blocks_of(st):
                flatten(b)
            if (isinstance(st, ast.Try) and len(st.body) == 1 and isinstance(st.body[0], ast.Assign)
                    and len(st.body[0].targets) == 1 and isinstance(st.body[0].targets[0], ast.Name)
                    and len(st.orelse) == 1 and isinstance(st.orelse[0], ast.Return) and isinstance(st.orelse[0].value, ast.Name)
                    and st.orelse[0].value.id == st.body[0].targets[0].id and len(_names_used(fn, st.orelse[0].value.id)) == 2):
                st.body = [ast.Return(value=st.body[0].value)]
                st.orelse = []

    def strip_continue(block):
        if not block:
            return
        last = block[-1]
        if isinstance(last, ast.Continue):
            block.pop()
            if not block:
                block.append(ast.Pass())
        elif isinstance(last, ast.Try) and not last.finalbody:
            for h in last.handlers:
                strip_continue(h.body)
            strip_continue(last.orelse if last.orelse else last.body)
            if last.orelse and all(isinstance(s_, ast.Pass) for s_ in last.orelse):
                last.orelse = []
        elif isinstance(last, ast.If):
            strip_continue(last.body)
            strip_continue(last.orelse)
        elif isinstance(last, (ast.With, ast.AsyncWith)):
            strip_continue(last.body)

    def loops(node):
        for n in ast.walk(node):
            if isinstance(n, (ast.While, ast.For, ast.AsyncFor)):
                strip_continue(n.body)

    def early(block, tail):
        for i in range(len(block) - 1, -1, -1):
            st = block[i]
            if (tail and isinstance(st, ast.If) and not st.orelse and len(st.body) == 1 and isinstance(st.body[0], ast.Return)
                    and st.body[0].value is None and i + 1 < len(block)):
                block[i:] = [ast.If(test=negate(st.test), body=block[i + 1:], orelse=[])]
        if not block:
            return
        last = block[-1]
        if not tail:
            return
        if isinstance(last, ast.Try) and not last.orelse:
            early(last.body, True)
        elif isinstance(last, ast.If):
            early(last.body, True)
            early(last.orelse, True)
        elif isinstance(last, (ast.With, ast.AsyncWith)):
            early(last.body, True)

    flatten(fn.body)
    loops(fn)
    early(fn.body, True)
    ast.fix_missing_locations(fn)
    return fn


def normal_form(tree, qualname, path):
    fn, cls = find(tree, qualname, path)
    fn, used = inline_helpers(fn, cls)
    fn = propagate_aliases(fn, cls)
    fn = restructure(fn)
    return fn, cls, used


# ---- exception classes

_CLASS = {
    "SSLWantReadError": "CWantRead", "SSLWantWriteError": "CWantWrite", "SSLZeroReturnError": "CZeroReturn",
    "SSLEOFError": "CSslEof", "SSLSyscallError": "CSyscall", "SSLCertVerificationError": "CCert",
    "SSLError": "CSslError", "OSError": "COSError", "ValueError": "CValueError", "BaseException": "CBaseException",
}


def classes_of(node, where):
    """ssl exception classes named by an expression: _ssl_module.X | ssl.X | X | tuple | (X if _ssl_module else ())"""
    if isinstance(node, ast.IfExp):
        if not (isinstance(node.orelse, ast.Tuple) and not node.orelse.elts):
            _fail(f"{where}: conditional except type with a non-empty alternative")
        return classes_of(node.body, where)
    if isinstance(node, ast.Tuple):
        return [c for e in node.elts for c in classes_of(e, where)]
    name = node.attr if isinstance(node, ast.Attribute) else node.id if isinstance(node, ast.Name) else None
    if name not in _CLASS:
        _fail(f"{where}: unknown exception class {ast.unparse(node)}")
    return [_CLASS[name]]


def _one_try(stmts, where):
    tries = [s_ for s_ in stmts if isinstance(s_, ast.Try)]
    if len(tries) != 1:
        _fail(f"{where}: expected exactly one try statement, found {len(tries)}")
    return tries[0]


def _is_return_eof(stmts):
    return (len(stmts) == 1 and isinstance(stmts[0], ast.Return) and isinstance(stmts[0].value, ast.Constant)
            and stmts[0].value.value in (b"", 0) and not isinstance(stmts[0].value.value, bool))


def _is_eof_call(e, var):
    return (isinstance(e, ast.Call) and not e.keywords and len(e.args) == 1 and isinstance(e.args[0], ast.Name)
            and e.args[0].id == var
            and ((isinstance(e.func, ast.Attribute) and e.func.attr == "is_ssl_eof_error")
                 or (isinstance(e.func, ast.Name) and e.func.id == "is_ssl_eof_error")))


def _is_not_std(e):
    return (isinstance(e, ast.UnaryOp) and isinstance(e.op, ast.Not) and isinstance(e.operand, ast.Attribute)
            and isinstance(e.operand.value, ast.Name) and e.operand.value.id == "self"
            and e.operand.attr.endswith("standard_compatible"))


def _hact(handler, where):
    b = handler.body
    if _is_return_eof(b):
        return "HReturnEof"
    # if is_ssl_eof_error(exc) [and / nested if] not self._standard_compatible: return EOF ; raise
    if (len(b) == 2 and isinstance(b[0], ast.If) and not b[0].orelse and isinstance(b[1], ast.Raise) and b[1].exc is None
            and handler.name):
        tests, inner = if_chain(b[0])
        if (len(tests) == 2 and _is_return_eof(inner) and any(_is_eof_call(t, handler.name) for t in tests)
                and any(_is_not_std(t) for t in tests)):
            return "HEofGuardRaise"
    _fail(f"{where}: handler body not recognised: {ast.unparse(handler)[:120]!r}")


# ---- the readers (one per parameter group); each returns python values

def read_handlers(tree, qualname, path):
    fn, _cls, _ = normal_form(tree, qualname, path)
    t = _one_try(_body(fn), qualname)
    if t.orelse or t.finalbody:
        _fail(f"{qualname}: unexpected else/finally")
    if not (len(t.body) == 1 and isinstance(t.body[0], ast.Return)):
        _fail(f"{qualname}: try body is not a single return")
    out = []
    for h in t.handlers:
        act = _hact(h, qualname)
        out.extend((c, act) for c in classes_of(h.type, qualname))
    return out


X_ALL = list(range(1, 11))          # tlskit outcome codes of the exceptions: O_WANT_READ .. O_OTHER_EXC
(O_OK, O_WANT_READ, O_WANT_WRITE, O_ZERO_RETURN, O_SSL_EOF, O_SSL_EOF_STR, O_SSL_SYSCALL, O_SSL_OTHER, O_CERT, O_OSERROR,
 O_OTHER_EXC) = range(11)
X_TERMINAL = [O_ZERO_RETURN, O_SSL_EOF, O_SSL_EOF_STR, O_SSL_SYSCALL, O_SSL_OTHER, O_CERT, O_OSERROR, O_OTHER_EXC]
X_NAME = {O_OK: "return", O_WANT_READ: "SSLWantReadError", O_WANT_WRITE: "SSLWantWriteError", O_ZERO_RETURN: "SSLZeroReturnError",
          O_SSL_EOF: "SSLEOFError", O_SSL_EOF_STR: "SSLError[UNEXPECTED_EOF_WHILE_READING]", O_SSL_SYSCALL: "SSLSyscallError",
          O_SSL_OTHER: "SSLError(other)", O_CERT: "SSLCertVerificationError", O_OSERROR: "OSError(not SSL)",
          O_OTHER_EXC: "other exception"}


def isinst(x, c):
    """Conc/TlsBase.v: isinstance"""
    return {
        "CBaseException": True,
        "COSError": x != O_OTHER_EXC,
        "CSslError": x not in (O_OTHER_EXC, O_OSERROR),
        "CWantRead": x == O_WANT_READ, "CWantWrite": x == O_WANT_WRITE, "CZeroReturn": x == O_ZERO_RETURN,
        "CSslEof": x == O_SSL_EOF, "CSyscall": x == O_SSL_SYSCALL, "CCert": x == O_CERT, "CValueError": x == O_CERT,
    }[c]


def eval_eof_function(fn, x):
    """is_ssl_eof_error evaluated on the model exception x, whatever its control flow (if chains, match, boolean
    expressions, early returns).  Anything outside this little language is an error of the reader."""
    a = fn.args
    params = [p.arg for p in a.posonlyargs + a.args]
    if len(params) != 1:
        _fail("is_ssl_eof_error: expected one parameter")
    arg = params[0]
    where = "is_ssl_eof_error"

    def is_arg(e):
        return isinstance(e, ast.Name) and e.id == arg

    def ev(e):
        if isinstance(e, ast.Constant) and isinstance(e.value, bool):
            return e.value
        if isinstance(e, ast.BoolOp):
            if isinstance(e.op, ast.And):
                return all(ev(v) for v in e.values)
            return any(ev(v) for v in e.values)
        if isinstance(e, ast.UnaryOp) and isinstance(e.op, ast.Not):
            return not ev(e.operand)
        if isinstance(e, ast.Compare) and len(e.ops) == 1:
            op, l, r = e.ops[0], e.left, e.comparators[0]
            if isinstance(l, ast.Name) and l.id in ("ssl", "_ssl_module") and isinstance(r, ast.Constant) and r.value is None:
                if isinstance(op, ast.Is):
                    return False          # the ssl module is available (stated in the notes)
                if isinstance(op, ast.IsNot):
                    return True
            if (isinstance(op, (ast.In, ast.NotIn)) and isinstance(l, ast.Constant) and l.value == "UNEXPECTED_EOF_WHILE_READING"
                    and isinstance(r, ast.Attribute) and r.attr == "strerror" and is_arg(r.value)):
                if x == O_OTHER_EXC:
                    _fail(f"{where}: .strerror read on an exception that need not have it")
                return (x == O_SSL_EOF_STR) == isinstance(op, ast.In)
        if isinstance(e, ast.Call) and not e.keywords and isinstance(e.func, ast.Name):
            if e.func.id == "isinstance" and len(e.args) == 2 and is_arg(e.args[0]):
                return any(isinst(x, c) for c in classes_of(e.args[1], where))
            if (e.func.id == "hasattr" and len(e.args) == 2 and is_arg(e.args[0]) and isinstance(e.args[1], ast.Constant)
                    and e.args[1].value == "strerror"):
                return x != O_OTHER_EXC      # every OSError has the attribute
        _fail(f"{where}: expression outside the fragment: {ast.unparse(e)[:100]}")

    def pattern(p):
        if isinstance(p, ast.MatchClass) and not p.patterns and not p.kwd_patterns:
            return any(isinst(x, c) for c in classes_of(p.cls, where))
        if isinstance(p, ast.MatchOr):
            return any(pattern(q) for q in p.patterns)
        if isinstance(p, ast.MatchAs) and p.pattern is None and p.name is None:
            return True
        _fail(f"{where}: pattern outside the fragment: {ast.unparse(p)}")

    def run(stmts):
        for st in stmts:
            if isinstance(st, ast.Pass) or (isinstance(st, ast.Expr) and isinstance(st.value, ast.Constant)):
                continue
            if isinstance(st, ast.Return):
                if st.value is None:
                    _fail(f"{where}: bare return")
                return bool(ev(st.value))
            if isinstance(st, ast.If):
                r = run(st.body) if ev(st.test) else run(st.orelse)
                if r is not None:
                    return r
                continue
            if isinstance(st, ast.Match) and is_arg(st.subject):
                for case in st.cases:
                    if pattern(case.pattern) and (case.guard is None or ev(case.guard)):
                        r = run(case.body)
                        if r is not None:
                            return r
                        break
                continue
            _fail(f"{where}: statement outside the fragment: {ast.unparse(st)[:100]}")
        return None

    r = run(fn.body)
    if r is None:
        _fail(f"{where}: falls off the end")
    return r


def read_eof_table(utils):
    fn, _ = find(utils, "is_ssl_eof_error", "_utils.py")
    return {x: eval_eof_function(fn, x) for x in X_ALL}


def _retry_parts(tls):
    fn, cls, used = normal_form(tls, "AsyncTLSStreamTransport._retry_ssl_method", _TLS)
    loops = [s_ for s_ in _body(fn) if isinstance(s_, ast.While)]
    if len(loops) != 1:
        _fail("_retry_ssl_method: expected one while loop")
    if not (isinstance(loops[0].test, ast.Constant) and loops[0].test.value is True):
        _fail("_retry_ssl_method: the loop is not `while True`")
    t = _one_try(loops[0].body, "_retry_ssl_method")
    if len(loops[0].body) != 1:
        _fail("_retry_ssl_method: statements beside the try statement in the loop")
    return fn, t, tls


def read_retry_order(tls):
    _fn, t, _ = _retry_parts(tls)
    order = [c for h in t.handlers for c in classes_of(h.type, "_retry_ssl_method")]
    if not t.orelse:
        _fail("_retry_ssl_method: no else branch")
    return order


_FLUSH_PLAIN = """
async with self.__transport_send_lock:
    if self._write_bio.pending:
        await self._transport.send_all(self._write_bio.read())
"""
_READINTO = "await self.__incoming_reader.readinto(self._read_bio)"


def _flush_shape(stmts, where, method_param=None):
    """(send lock only if the BIO is not empty, never after a successful read)"""
    found = []
    for st in stmts:
        if matches(_FLUSH_PLAIN, st):
            found.append((False, False))
        elif isinstance(st, ast.If) and not st.orelse and "send_lock" in ast.unparse(st):
            tests, inner = if_chain(st)
            got = sorted(ast.unparse(t) for t in tests)
            if not (len(inner) == 1 and matches(_FLUSH_PLAIN, inner[0])):
                _fail(f"{where}: flush block not recognised: {ast.unparse(st)[:120]!r}")
            if got == ["self._write_bio.pending"]:
                found.append((True, False))
            elif method_param and got in (sorted(["self._write_bio.pending", f"{method_param} != self._ssl_object.read"]),
                                          sorted(["self._write_bio.pending", f"self._ssl_object.read != {method_param}"])):
                found.append((True, True))
            else:
                _fail(f"{where}: condition of the flush block not recognised: {' and '.join(got)}")
        elif "send_lock" in ast.unparse(st):
            _fail(f"{where}: flush block not recognised: {ast.unparse(st)[:120]!r}")
    if len(found) != 1:
        _fail(f"{where}: expected exactly one flush block")
    return found[0]


def read_pump_flags(tls):
    """(f_recheck, f_skiplock, f_lazyread)"""
    _fn, t, tree = _retry_parts(tls)
    wr = [h for h in t.handlers if classes_of(h.type, "_retry_ssl_method") == ["CWantRead"]]
    if len(wr) != 1 or len(wr[0].body) != 1 or not isinstance(wr[0].body[0], ast.Try):
        _fail("_retry_ssl_method: WANT_READ handler not recognised")
    inner = wr[0].body[0]
    recv_blocks = [s_ for s_ in inner.body if isinstance(s_, ast.AsyncWith) and "recv_lock" in ast.unparse(s_.items[0].context_expr)]
    if len(recv_blocks) != 1:
        _fail("_retry_ssl_method: expected exactly one `async with` on the recv lock in the WANT_READ branch")
    body = recv_blocks[0].body
    reader, _ = find(tree, "_IncomingDataReader.readinto", _TLS)
    counts = [n for n in ast.walk(reader) if isinstance(n, ast.AugAssign) and isinstance(n.target, ast.Attribute)
              and n.target.attr == "feed_count"]
    env = {}
    if len(body) == 1 and matches(_READINTO, body[0]):
        if counts or "feed_count" in ast.unparse(_fn):
            _fail("feed_count is maintained but the recv-lock block does not use it")
        recheck = False
    elif (len(body) == 1 and isinstance(body[0], ast.If) and not body[0].orelse and len(body[0].body) == 1
          and matches(_READINTO, body[0].body[0])):
        if not (matches("self.__incoming_reader.feed_count == $fc", body[0].test, env, kind="expr")
                or matches("$fc == self.__incoming_reader.feed_count", body[0].test, env, kind="expr")):
            _fail(f"recv-lock guard not recognised: {ast.unparse(body[0].test)}")
        if not matches("$fc = self.__incoming_reader.feed_count", inner.body[0], env):
            _fail("the feed_count snapshot must be the first statement of the WANT_READ branch (no await before it)")
        if len(_stores_of(_fn, env[_PV + "fc"])) != 1:
            _fail("the feed_count snapshot variable is assigned more than once")
        top = _body(reader)
        if not (len(counts) == 1 and counts[0] in top and matches("self.feed_count += 1", counts[0])
                and top.index(counts[0]) == 1 and "await" in ast.unparse(top[0])
                and not any("await" in ast.unparse(s_) for s_ in top[1:])):
            _fail("_IncomingDataReader.readinto: feed_count update not recognised")
        recheck = True
    else:
        _fail(f"recv-lock block not recognised: {ast.unparse(recv_blocks[0])[:160]!r}")
    params = [a.arg for a in _fn.args.args]
    if len(params) != 2 or params[0] != "self" or _stores_of(_fn, params[1]):
        _fail("_retry_ssl_method: parameters not recognised")
    skip_wr, _ = _flush_shape(inner.body, "WANT_READ branch")
    skip_ok, lazy = _flush_shape(t.orelse, "success branch", params[1])
    if skip_wr != skip_ok:
        _fail("the WANT_READ branch and the success branch disagree on when the send lock is taken")
    if not (t.orelse and matches("return $r", t.orelse[-1], {}) and len(t.body) == 1 and matches("$r = $m(*args)", t.body[0], {})):
        _fail("_retry_ssl_method: the success branch does not end with the return of the result of the SSL method")
    return recheck, skip_wr, lazy


def _stores_of(fn, name):
    return [n for n in ast.walk(fn) if isinstance(n, ast.Name) and n.id == name and isinstance(n.ctx, ast.Store)]


def read_flush_zero(tls):
    fn, _cls, _ = normal_form(tls, "AsyncTLSStreamTransport.__flush_data_to_send", _TLS)
    t = _one_try(_body(fn), "__flush_data_to_send")
    ok = (len(t.handlers) == 1 and classes_of(t.handlers[0].type, "flush") == ["CZeroReturn"]
          and len(t.handlers[0].body) == 1 and isinstance(t.handlers[0].body[0], ast.Raise)
          and "ECONNRESET" in ast.unparse(t.handlers[0].body[0]))
    if not ok:
        _fail("__flush_data_to_send: except clause not recognised")
    return True


_LATE = """
if self._write_bio.pending:
    with contextlib.suppress(OSError):
        async with self.__transport_send_lock:
            if self._write_bio.pending:
                await self._transport.send_all(self._write_bio.read())
"""


def read_aclose(tls):
    """(unwrap_swallows, forceful_on, unwrap_if_std, close_flush)"""
    fn, _cls, _ = normal_form(tls, "AsyncTLSStreamTransport.aclose", _TLS)
    tries = [n for n in ast.walk(fn) if isinstance(n, ast.Try)]
    if len(tries) != 2:
        _fail("aclose: expected two nested try statements")
    nested = [any(isinstance(n, ast.Try) for n in ast.walk(t) if n is not t) for t in tries]
    if nested == [True, False]:
        outer, inner = tries
    elif nested == [False, True]:
        inner, outer = tries
    else:
        _fail("aclose: the two try statements are not nested")
    if not (len(inner.body) == 1 and "unwrap" in ast.unparse(inner.body[0]) and not inner.orelse and not inner.finalbody):
        _fail("aclose: the try statement around unwrap() was not recognised")
    hs = inner.handlers
    if not (hs and classes_of(hs[-1].type, "aclose") and len(hs[-1].body) == 1 and isinstance(hs[-1].body[0], ast.Pass)):
        _fail("aclose: the last handler around unwrap() does not swallow")
    if len(hs) == 1:
        close_flush = False
    elif (len(hs) == 2 and classes_of(hs[0].type, "aclose") == ["CSslError"] and len(hs[0].body) == 1 and matches(_LATE, hs[0].body[0])):
        close_flush = True
    else:
        _fail("aclose: handlers of the try statement around unwrap() not recognised")
    swallows = classes_of(hs[-1].type, "aclose")
    if close_flush and swallows != ["COSError"]:
        _fail("aclose: unexpected classes swallowed after the SSLError handler")
    if not (len(outer.handlers) == 1 and "aclose_forcefully" in ast.unparse(outer.handlers[0])
            and isinstance(outer.handlers[0].body[-1], ast.Raise) and outer.handlers[0].body[-1].exc is None):
        _fail("aclose: outer try not recognised")
    forceful = classes_of(outer.handlers[0].type, "aclose")
    conds = [n for n in ast.walk(fn) if isinstance(n, ast.If) and "standard_compatible" in ast.unparse(n.test)]
    if len(conds) != 1:
        _fail("aclose: standard_compatible condition not found")
    tests, _inner = if_chain(conds[0])
    got = sorted(ast.unparse(t) for t in tests)
    if got != sorted(["self._standard_compatible", "not self._transport.is_closing()"]) or conds[0].orelse:
        _fail(f"aclose: unexpected condition {ast.unparse(conds[0].test)}")
    if not any(n is outer for n in ast.walk(conds[0])):
        _fail("aclose: the closing handshake is not under the standard_compatible condition")
    return swallows, forceful, True, close_flush


def _raises_wouldblock(handler, where):
    b = handler.body
    if len(b) == 1 and isinstance(b[0], ast.Raise) and isinstance(b[0].exc, ast.Call):
        f = b[0].exc.func
        name = f.attr if isinstance(f, ast.Attribute) else getattr(f, "id", None)
        if name in ("WouldBlockOnRead", "WouldBlockOnWrite"):
            return name
    _fail(f"{where}: handler does not raise WouldBlockOnRead/WouldBlockOnWrite")


def read_sync_try(sock):
    fn, _cls, _ = normal_form(sock, "SSLStreamTransport._try_ssl_method", _SOCK)
    t = _one_try(_body(fn), "_try_ssl_method")
    if t.orelse or t.finalbody or not (len(t.body) == 1 and isinstance(t.body[0], ast.Return)):
        _fail("_try_ssl_method: try statement not recognised")
    rd, wr = [], []
    for h in t.handlers:
        (rd if _raises_wouldblock(h, "_try_ssl_method") == "WouldBlockOnRead" else wr).extend(classes_of(h.type, "_try_ssl_method"))
    # (the model tries the read classes first: sound if no exception is in both lists, or the source order is read-first)
    return rd, wr


def read_sync_close(sock):
    """(swallows, unwrap_if_std)"""
    fn, _cls, _ = normal_form(sock, "SSLStreamTransport.close", _SOCK)
    t = _one_try(_body(fn), "SSLStreamTransport.close")
    if not (len(t.handlers) == 1 and len(t.handlers[0].body) == 1 and isinstance(t.handlers[0].body[0], ast.Pass)
            and t.finalbody and "_close_stream_socket" in ast.unparse(t.finalbody) and not t.orelse):
        _fail("SSLStreamTransport.close: try statement not recognised")
    swallows = classes_of(t.handlers[0].type, "close")
    if not (len(t.body) == 1 and isinstance(t.body[0], ast.If) and not t.body[0].orelse):
        _fail("SSLStreamTransport.close: body not recognised")
    tests, inner = if_chain(t.body[0])
    if "unwrap" not in ast.unparse(inner) or len(inner) != 1:
        _fail("SSLStreamTransport.close: unwrap() not found under the condition")
    got = sorted(ast.unparse(x) for x in tests)
    if got != sorted(["self.__standard_compatible", "self.__socket.fileno() >= 0"]):
        _fail(f"SSLStreamTransport.close: unexpected condition {' and '.join(got)}")
    return swallows, True


def read_suppress(sock):
    fn, _cls, _ = normal_form(sock, "SSLStreamTransport.__init__", _SOCK)
    kws = [kw for n in ast.walk(fn) if isinstance(n, ast.Call) and isinstance(n.func, ast.Attribute) and n.func.attr == "wrap_socket"
           for kw in n.keywords if kw.arg == "suppress_ragged_eofs"]
    if len(kws) != 1:
        _fail("SSLStreamTransport.__init__: suppress_ragged_eofs keyword not found")
    v = kws[0].value
    if isinstance(v, ast.UnaryOp) and isinstance(v.op, ast.Not) and isinstance(v.operand, ast.Name) and v.operand.id == "standard_compatible":
        return "negb std"
    if isinstance(v, ast.Name) and v.id == "standard_compatible":
        return "std"
    if isinstance(v, ast.Constant) and isinstance(v.value, bool):
        return "true" if v.value else "false"
    _fail(f"suppress_ragged_eofs = {ast.unparse(v)}: not recognised")


def read_clears(rel, qualname):
    fn, _ = find(_parse(rel), qualname, rel)
    for n in ast.walk(fn):
        if (isinstance(n, ast.AugAssign) and isinstance(n.op, ast.BitAnd) and isinstance(n.target, ast.Attribute)
                and n.target.attr == "options" and isinstance(n.value, ast.UnaryOp) and isinstance(n.value.op, ast.Invert)
                and isinstance(n.value.operand, ast.Attribute) and n.value.operand.attr == "OP_IGNORE_UNEXPECTED_EOF"):
            return True
    return False


# ====================================================================================== 2. mirrors of the model

def m_eof(pats, x):
    """Conc/TlsEof.v: is_ssl_eof_error"""
    return any(isinst(x, c) and (kind == "PIsInstance" or x == O_SSL_EOF_STR) for kind, c in pats)


def m_handle(table, std, x, eof):
    """Conc/TlsEof.v: handle; 'eof' | ('raise', x)"""
    for c, act in table:
        if isinst(x, c):
            if act == "HReturnEof" or (eof[x] and not std):
                return "eof"
            return ("raise", x)
    return ("raise", x)


def m_aclose(swallows, if_std, std, x):
    """Conc/TlsEof.v: run_op OClose, the part the parameters decide: (unwrap called, result)"""
    if not (std if if_std else True):
        return (False, "ok")
    if x == O_OK:
        return (True, "ok")
    if x == O_OTHER_EXC:
        return (True, ("raise", x))
    return (True, "ok" if any(isinst(x, c) for c in swallows) else ("raise", x))


def m_sync_try(rd, wr, x):
    if any(isinst(x, c) for c in rd):
        return "R"
    if any(isinst(x, c) for c in wr):
        return "W"
    return "T"


def m_sync_close(swallows, if_std, std, x, blocked):
    """(unwrap called, result); blocked = how the _try_ssl_method classifies x"""
    if not (std if if_std else True):
        return (False, "ok")
    if x == O_OK:
        return (True, "ok")
    if blocked != "T":                      # the script ends: TimeoutError, swallowed iff OSError is
        return (True, "ok" if "COSError" in swallows else "timeout")
    return (True, "ok" if any(isinst(x, c) for c in swallows) else ("raise", x))


_CLS_ORDER = ["CWantRead", "CWantWrite", "CZeroReturn", "CSslEof", "CSyscall", "CCert", "CSslError", "COSError", "CValueError",
              "CBaseException"]


def _seqs(items, maxlen):
    for n in range(0, maxlen + 1):
        yield from (list(t) for t in itertools.product(items, repeat=n))


def cand_tables():
    entries = [(c, a) for c in _CLS_ORDER[2:] for a in ("HReturnEof", "HEofGuardRaise")]
    return _seqs(entries, 3)


def cand_patterns():
    entries = [(k, c) for c in _CLS_ORDER for k in ("PIsInstance", "PIsInstanceStrerror")]
    return _seqs(entries, 2)


def cand_classes(maxlen=2):
    return _seqs(_CLS_ORDER, maxlen)


# ====================================================================================== 3. behavioural probes

_HS = None


def _results(run):
    return [o for o in run["obs"] if o[0] == 1]


def _res(o):
    """[1, kind, v] -> 'eof' / ('ret', v) / ('raise', code)"""
    if o[1] == 0:
        return "eof" if o[2] == 0 else ("ret", o[2])
    return ("raise", o[2])


def probe_c09():
    """observation tables of the real transports of the tree under test under scripted SSL objects"""
    import ssl
    import tlskit as K
    import c09
    from easynetwork.lowlevel import _utils

    obs = {}
    # -- is_ssl_eof_error on every exception class / errno / reason / strerror combination of the universe
    variants = {
        O_WANT_READ: [ssl.SSLWantReadError(ssl.SSL_ERROR_WANT_READ, "want read")],
        O_WANT_WRITE: [ssl.SSLWantWriteError(ssl.SSL_ERROR_WANT_WRITE, "want write")],
        O_ZERO_RETURN: [ssl.SSLZeroReturnError(ssl.SSL_ERROR_ZERO_RETURN, "TLS/SSL connection has been closed (EOF)"),
                        ssl.SSLZeroReturnError(ssl.SSL_ERROR_EOF, "EOF")],
        O_SSL_EOF: [ssl.SSLEOFError(ssl.SSL_ERROR_EOF, "EOF occurred in violation of protocol"),
                    ssl.SSLEOFError(ssl.SSL_ERROR_SSL, "[SSL: UNEXPECTED_EOF_WHILE_READING] unexpected eof while reading"),
                    ssl.SSLEOFError(1, "x")],
        O_SSL_EOF_STR: [ssl.SSLError(ssl.SSL_ERROR_SSL, "[SSL: UNEXPECTED_EOF_WHILE_READING] unexpected eof while reading (_ssl.c:1000)"),
                        ssl.SSLError(ssl.SSL_ERROR_EOF, "UNEXPECTED_EOF_WHILE_READING")],
        O_SSL_SYSCALL: [ssl.SSLSyscallError(ssl.SSL_ERROR_SYSCALL, "Some I/O error occurred"),
                        ssl.SSLSyscallError(ssl.SSL_ERROR_EOF, "EOF occurred in violation of protocol")],
        O_SSL_OTHER: [ssl.SSLError(ssl.SSL_ERROR_SSL, "[SSL: BAD_RECORD_MAC] bad mac"),
                      ssl.SSLError(ssl.SSL_ERROR_EOF, "EOF occurred in violation of protocol"),
                      ssl.SSLError(ssl.SSL_ERROR_SSL, "[SSL: APPLICATION_DATA_AFTER_CLOSE_NOTIFY] application data after close notify"),
                      ssl.SSLError(ssl.SSL_ERROR_ZERO_RETURN, "closed")],
        O_CERT: [ssl.SSLCertVerificationError(ssl.SSL_ERROR_SSL, "certificate verify failed")],
        O_OSERROR: [ConnectionResetError(104, "reset"), OSError(ssl.SSL_ERROR_EOF, "EOF occurred in violation of protocol"),
                    BrokenPipeError(32, "UNEXPECTED_EOF_WHILE_READING")],
        O_OTHER_EXC: [KeyError("x"), ValueError("UNEXPECTED_EOF_WHILE_READING"), EOFError("EOF")],
    }
    eof = {}
    for x, excs in variants.items():
        for e in excs:
            if K.classify(e) != x:
                _fail(f"behavioural probe: internal: {e!r} is not of class {X_NAME[x]}")
            try:
                got = bool(_utils.is_ssl_eof_error(e))
            except Exception as exc:
                _fail(f"behavioural probe: is_ssl_eof_error({e!r}) raised {exc!r}")
            if eof.setdefault(x, got) != got:
                _fail(f"behavioural probe: is_ssl_eof_error distinguishes two exceptions of the class {X_NAME[x]} "
                      f"(the model cannot): {e!r}")
    obs["eof"] = eof

    hs = [(K.M_HANDSHAKE, O_OK, 0, 0)]

    def arun(std, script, plan, tx=()):
        return c09.run_async(dict(kind=c09.K_ASYNC, std=std, fake=dict(ssl=hs + list(script), rx=[], tx=list(tx)), plan=plan))

    for name, op in (("recv", c09.OP_RECV), ("recv_into", c09.OP_RECV_INTO)):
        tbl = {}
        for std in (1, 0):
            for x in X_TERMINAL:
                r = _results(arun(std, [(K.M_READ, x, 0, 0)], [(op, c09.RECV_SIZE, 1)]))
                tbl[(std, x)] = _res(r[1]) if len(r) == 2 and r[0] == [1, 0, 0] else ("?", repr(r))
        obs[name] = tbl
    r = _results(arun(1, [(K.M_WRITE, O_ZERO_RETURN, 0, 0)], [(c09.OP_SEND, [6])]))
    obs["flush_zero"] = _res(r[1]) if len(r) == 2 else ("?", repr(r))

    tbl, flush = {}, {}
    for std in (1, 0):
        for x in [O_OK] + X_TERMINAL:
            run = arun(std, [(K.M_UNWRAP, x, 0, 0)], [(c09.OP_CLOSE, 0, 0)])
            r = _results(run)
            called = any(a[0] == 0 and a[1] == K.M_UNWRAP for a in run["answers"])
            closed = [o for o in run["obs"] if o[0] == 0][-1:] == [[0, 5, 0]]
            res = _res(r[1]) if len(r) == 2 and r[0] == [1, 0, 0] and closed else ("?", repr(r))
            tbl[(std, x)] = (called, "ok" if res == "eof" else res)
    obs["aclose"] = tbl
    # -- what unwrap() left in the outgoing BIO when it failed: still sent?
    for x in X_TERMINAL[:-2]:
        run = arun(1, [(K.M_UNWRAP, x, 0, 5)], [(c09.OP_CLOSE, 0, 0)], tx=[1, 1])
        r = _results(run)
        flush[x] = ([0, 0, 5] in run["obs"], _res(r[1]) if len(r) == 2 else ("?", repr(r)))
    obs["close_flush"] = flush

    def srun(std, script, plan):
        return c09.run_sync(dict(kind=c09.K_SYNC, std=std, fake=dict(ssl=[(K.M_HANDSHAKE, O_OK, 0)] + list(script)), plan=plan))

    def blocked(run):
        acts = [o[1] for o in run["obs"] if o[0] == 0]
        return "R" if 7 in acts else "W" if 8 in acts else "T"

    sync_try = {}
    for name, op in (("sync_recv", c09.OP_RECV), ("sync_recv_into", c09.OP_RECV_INTO)):
        tbl = {}
        for std in (1, 0):
            for x in X_ALL:
                run = srun(std, [(K.M_READ, x, 0)], [(op, c09.RECV_SIZE, 1)])
                r = _results(run)
                b = blocked(run)
                if sync_try.setdefault(x, b) != b:
                    _fail(f"behavioural probe: _try_ssl_method treats {X_NAME[x]} differently from call to call")
                if b == "T":
                    tbl[(std, x)] = _res(r[1]) if len(r) == 2 and r[0] == [1, 0, 0] else ("?", repr(r))
                elif not (len(r) == 2 and r[1] == [1, 1, 11]):
                    _fail(f"behavioural probe: blocking recv on {X_NAME[x]}: unexpected outcome {r}")
        obs[name] = tbl
    obs["sync_try"] = sync_try
    tbl, kw = {}, {}
    for std in (1, 0):
        for x in [O_OK] + X_ALL:
            run = srun(std, [(K.M_UNWRAP, x, 0)], [(c09.OP_CLOSE, 0, 0)])
            r = _results(run)
            called = any(a[0] == K.M_UNWRAP for a in run["answers"])
            res = _res(r[1]) if len(r) == 2 and r[0] == [1, 0, 0] else ("?", repr(r))
            res = {"eof": "ok", ("raise", 11): "timeout"}.get(res, res)
            tbl[(std, x)] = (called, res, blocked(run))
            kw[std] = run["info"]["kw"].get("suppress_ragged_eofs", "missing")
    obs["sync_close"] = tbl
    obs["suppress"] = kw
    obs["clears"] = [not c09.run_default_flag(w)[0] for w in (0, 1)]
    return obs


def probe_c08():
    """the three switches of the pump model, decided on the real transport under a scripted SSL object:
       f_skiplock: is the send lock touched when the outgoing BIO is empty (WANT_READ branch and success branch)?
       f_recheck : a second task feeds the SSL object while the first one queues on the recv lock: does the first one
                   retry the SSL call before it reads the transport?
       f_lazyread: does a successful read return at once although bytes are pending in the outgoing BIO?
       (f_close_flush is decided by probe_c09()['close_flush'])"""
    import asyncio
    import tlskit as K
    import c09
    from common import detloop
    from easynetwork.lowlevel.api_async.transports.tls import AsyncTLSStreamTransport

    def run(script, rx, tx, body, recv_yields=0, hs=((K.M_HANDSHAKE, O_OK, 0, 0),), from_start=False):
        rec = K.Recorder()
        out = {}

        async def main():
            tr = K.MemTransport(rec, c09._NullPeer(), K.RecBackend(K.new_backend(), rec), recv_script=list(rx),
                                send_script=list(tx), recv_yields=recv_yields)
            with K.patched_ssl_module(rec):
                t = await AsyncTLSStreamTransport.wrap(tr, c09.FakeContext(list(hs) + list(script), rec),
                                                       server_side=False, server_hostname="localhost", standard_compatible=True,
                                                       handshake_timeout=60.0, shutdown_timeout=30.0)
            out["start"] = len(rec.events)
            out["r"] = await body(t)

        detloop.run(main())
        return rec.events[0 if from_start else out.get("start", 0):], out.get("r")

    async def one_recv(t):
        return len(await t.recv(100))

    obs = {}
    ev, r = run([(K.M_READ, O_WANT_READ, 0, 0), (K.M_READ, O_OK, 7, 0)], [4], [], one_recv)
    if r != 7:
        _fail(f"behavioural probe (send lock): recv returned {r!r}")
    obs["send_lock_acquisitions_with_empty_bio"] = sum(1 for e in ev if e[0] == "acq" and e[2] == 0)
    async def one_recv_into(t):
        return await t.recv_into(bytearray(100))

    for name, body in (("recv", one_recv), ("recv_into", one_recv_into)):
        ev, r = run([(K.M_READ, O_WANT_READ, 0, 3), (K.M_READ, O_OK, 7, 2)], [4], [1, 1], body)
        if r != 7:
            _fail(f"behavioural probe (send lock): {name} returned {r!r}")
        obs[f"send_lock_acquisitions_with_pending_bio[{name}]"] = sum(1 for e in ev if e[0] == "acq" and e[2] == 0)
        obs[f"sends_with_pending_bio[{name}]"] = [e[2] for e in ev if e[0] == "send"]
    # what do_handshake() / a write leave in the outgoing BIO when they succeed is sent before the call returns

    async def one_send(t):
        await t.send_all(b"s" * 6)
        return 6

    ev, r = run([(K.M_WRITE, O_OK, 6, 11)], [], [1, 1], one_send, hs=((K.M_HANDSHAKE, O_OK, 0, 4),), from_start=True)
    obs["sends_after_successful_handshake_and_write"] = [e[2] for e in ev if e[0] == "send"]

    async def two_recv(t):
        a = asyncio.ensure_future(t.recv(100))
        b = asyncio.ensure_future(t.recv(100))
        return sorted([len(await a), len(await b)])

    ev, r = run([(K.M_READ, O_WANT_READ, 0, 0), (K.M_READ, O_WANT_READ, 0, 0), (K.M_READ, O_OK, 7, 0), (K.M_READ, O_OK, 5, 0)],
                [4, 3], [], two_recv, recv_yields=12)
    if r != [5, 7]:
        _fail(f"behavioural probe (recv lock): the two recv() calls returned {r!r}")
    kinds = [e[0] for e in ev]
    ssl_idx = [i for i, e in enumerate(ev) if e[0] == "ssl"]
    first_rcvd = kinds.index("rcvd") if "rcvd" in kinds else -1
    if not (len(ssl_idx) == 4 and first_rcvd > ssl_idx[1]):
        _fail("behavioural probe (recv lock): the second task did not reach the SSL object before the first one was fed")
    obs["transport_reads_of_two_waiting_readers"] = kinds.count("recv")
    return obs


# ====================================================================================== 4. putting both together

_MEMO = {}


def _coq_list(items):
    return "[" + "; ".join(items) + "]"


def _coq_table(tbl):
    return _coq_list(f"({c}, {a})" for c, a in tbl)


def _coq_pats(pats):
    return _coq_list(f"{k} {c}" for k, c in pats)


def _attempt(f, *a):
    if os.environ.get("VERIF_TLSPARAMS_NO_AST"):       # self-test switch: the probes must decide alone
        return None, "reader switched off (VERIF_TLSPARAMS_NO_AST)"
    try:
        return f(*a), None
    except TranslateError as exc:
        return None, str(exc)


def _decide(name, ast_val, ast_err, predicts, candidates, describe):
    """(value, provenance)"""
    if ast_err is None:
        bad = predicts(ast_val)
        if bad:
            _fail(f"{name}: the reader of the source and the behavioural probes disagree: read {describe(ast_val)}, but {bad}")
        return ast_val, "ast+behavioural (agree)"
    for cand in candidates:
        if not predicts(cand):
            return cand, f"(behavioural) the reader of the source said: {ast_err}"
    _fail(f"{name}: {ast_err} ; behavioural fallback: no value of the parameter predicts what the probes observe "
          f"(the behaviour is outside the model)")


def _diff(pred, seen, fmt):
    for k in seen:
        if pred(k) != seen[k]:
            return f"probe {fmt(k)}: observed {seen[k]}, the value predicts {pred(k)}"
    return None


def _fx(k):
    return X_NAME[k] if isinstance(k, int) else f"{'standard-compatible' if k[0] else 'not standard-compatible'}, {X_NAME[k[1]]}"


def compute():
    """{name: (coq text of the value, provenance)} for every definition of Gen/ParamsC09.v and the three flags of
    Gen/ParamsC08.v.  Probes always run."""
    key = runner.REPO
    if key in _MEMO:
        return _MEMO[key]
    try:
        o9 = probe_c09()
        o8 = probe_c08()
    except TranslateError:
        raise
    except Exception as exc:
        _fail(f"behavioural probes crashed: {type(exc).__name__}: {exc}")
    tls, sock, utils = _parse(_TLS), _parse(_SOCK), _parse(_UTILS)
    out = {}
    eof = o9["eof"]

    # ssl_eof_patterns: the reader gives a truth table (symbolic evaluation); the value is the first pattern list with it
    tab, err = _attempt(read_eof_table, utils)
    if err is None and tab != eof:
        x = [x for x in X_ALL if tab[x] != eof[x]][0]
        _fail(f"ssl_eof_patterns: the reader of the source and the behavioural probes disagree on {X_NAME[x]}: "
              f"read {tab[x]}, observed {eof[x]}")
    pats = next((p for p in _head_first([[("PIsInstance", "CSslEof"), ("PIsInstanceStrerror", "CSslError")]], cand_patterns())
                 if all(m_eof(p, x) == eof[x] for x in X_ALL)), None)
    if pats is None:
        _fail(f"ssl_eof_patterns: no pattern list has the observed truth table {eof}")
    out["ssl_eof_patterns"] = (_coq_pats(pats), "ast (symbolic evaluation) + behavioural (agree)" if err is None else
                               f"(behavioural) the reader of the source said: {err}")

    def table_param(name, qual, tree, path, seen):
        v, e = _attempt(read_handlers, tree, qual, path)
        val, prov = _decide(name, v, e, lambda t: _diff(lambda k: m_handle(t, k[0], k[1], eof), seen, _fx),
                            cand_tables(), _coq_table)
        out[name] = (_coq_table(val), prov)

    table_param("recv_handlers", "AsyncTLSStreamTransport.recv", tls, _TLS, o9["recv"])
    table_param("recv_into_handlers", "AsyncTLSStreamTransport.recv_into", tls, _TLS, o9["recv_into"])

    # _retry_ssl_method: the order of the except clauses is not consulted by the model (the pump model fixes what each
    # outcome class does, and the scripted-SSL-object families check it); the reader's value is reported when it has one
    v, e = _attempt(read_retry_order, tls)
    out["retry_handler_order"] = ((_coq_list(v), "ast (not consulted by the model)") if e is None else
                                  (_coq_list(["CWantRead", "CWantWrite", "CSslError"]),
                                   f"(behavioural) not consulted by the model; the reader of the source said: {e}"))

    v, e = _attempt(read_flush_zero, tls)
    seen = o9["flush_zero"]
    val, prov = _decide("flush_zero_return_is_reset", v, e,
                        lambda b: None if seen == ("raise", O_OSERROR if b else O_ZERO_RETURN) else
                        f"send_all on SSLZeroReturnError: observed {seen}", [True, False], str)
    out["flush_zero_return_is_reset"] = ("true" if val else "false", prov)

    # aclose
    v, e = _attempt(read_aclose, tls)
    seen = o9["aclose"]

    def aclose_pred(p):
        return _diff(lambda k: m_aclose(p[0], p[1], k[0], k[1]), seen, _fx)

    cands = ((sw, st) for st in (True, False) for sw in _head_first([["COSError"]], cand_classes()))
    val, prov = _decide("aclose", None if e else (v[0], v[2]), e, aclose_pred, cands, lambda p: f"swallows {p[0]}, only if standard-compatible {p[1]}")
    out["aclose_unwrap_swallows"] = (_coq_list(val[0]), prov)
    out["aclose_unwrap_if_std"] = ("true" if val[1] else "false", prov)
    # forceful close on every other exception: fixed by the model (ROther / cancellation => forceful); observed above for
    # the non-OSError exception
    out["aclose_forceful_on"] = ((_coq_list(v[1]), "ast (not consulted by the model)") if e is None else
                                 (_coq_list(["CBaseException"]), f"(behavioural) not consulted by the model; the reader of the source said: {e}"))
    # f_close_flush
    fl = o9["close_flush"]
    sw = val[0]
    sent = {fl[x][0] for x in fl if any(isinst(x, c) for c in sw)}
    if len(sent) > 1 or any(fl[x][1] != "eof" for x in fl if any(isinst(x, c) for c in sw)):
        _fail(f"f_close_flush: what unwrap() left in the outgoing BIO is sent for some SSL errors and not for others: {fl}")
    beh_close_flush = bool(sent and sent.pop())
    if e is None and v[3] != beh_close_flush:
        _fail(f"f_close_flush: the reader of the source says {v[3]}, the behavioural probe {beh_close_flush}")
    out["f_close_flush"] = ("true" if beh_close_flush else "false",
                            "ast+behavioural (agree)" if e is None else f"(behavioural) the reader of the source said: {e}")

    # blocking transport
    v, e = _attempt(read_sync_try, sock)
    seen = o9["sync_try"]
    cands = ((rd, wr) for rd in _head_first([["CWantRead", "CSyscall"]], cand_classes())
             for wr in _head_first([["CWantWrite"]], cand_classes(1)))
    val, prov = _decide("_try_ssl_method", v, e, lambda p: _diff(lambda x: m_sync_try(p[0], p[1], x), seen, _fx), cands,
                        lambda p: f"read {p[0]}, write {p[1]}")
    out["sync_wouldblock_read"] = (_coq_list(val[0]), prov)
    out["sync_wouldblock_write"] = (_coq_list(val[1]), prov)
    table_param("sync_recv_handlers", "SSLStreamTransport.recv_noblock", sock, _SOCK, o9["sync_recv"])
    table_param("sync_recv_into_handlers", "SSLStreamTransport.recv_noblock_into", sock, _SOCK, o9["sync_recv_into"])
    v, e = _attempt(read_sync_close, sock)
    seen = {k: (c, r) for k, (c, r, _b) in o9["sync_close"].items()}
    how = {k: b for k, (_c, _r, b) in o9["sync_close"].items()}
    cands = ((sw, st) for st in (True, False) for sw in _head_first([["COSError", "CValueError"]], cand_classes()))
    val, prov = _decide("SSLStreamTransport.close", v, e,
                        lambda p: _diff(lambda k: m_sync_close(p[0], p[1], k[0], k[1], how[k]), seen, _fx), cands,
                        lambda p: f"swallows {p[0]}, only if standard-compatible {p[1]}")
    out["sync_close_swallows"] = (_coq_list(val[0]), prov)
    out["sync_close_unwrap_if_std"] = ("true" if val[1] else "false", prov)
    v, e = _attempt(read_suppress, sock)
    seen = o9["suppress"]
    sem = {"negb std": lambda s: not s, "std": lambda s: bool(s), "true": lambda s: True, "false": lambda s: False}
    val, prov = _decide("suppress_ragged_eofs", v, e,
                        lambda ex: None if all(seen[s] is sem[ex](s) for s in (1, 0)) else f"wrap_socket got {seen}",
                        ["negb std", "std", "true", "false"], str)
    out["suppress_ragged_eofs"] = (val, prov)
    flags = []
    provs = []
    for i, (rel, q) in enumerate((("src/easynetwork/clients/tcp.py", "TCPNetworkClient.__init__"),
                                  ("src/easynetwork/clients/async_tcp.py", "AsyncTCPNetworkClient.__init__"))):
        v, e = _attempt(read_clears, rel, q)
        seen_i = o9["clears"][i]
        val, prov = _decide(f"client_default_ctx_clears_ignore_eof[{i}]", v, e,
                            lambda b: None if b == seen_i else f"the default context of {q} has the option "
                            f"{'cleared' if seen_i else 'still set'}", [True, False], str)
        flags.append("true" if val else "false")
        provs.append(prov)
    out["client_default_ctx_clears_ignore_eof"] = (_coq_list(flags), provs[0] if provs[0] == provs[1] else " / ".join(provs))

    # the pump switches
    v, e = _attempt(read_pump_flags, tls)
    n0 = o8["send_lock_acquisitions_with_empty_bio"]
    seen = {(o8[f"send_lock_acquisitions_with_pending_bio[{n}]"], tuple(o8[f"sends_with_pending_bio[{n}]"])) for n in ("recv", "recv_into")}
    if seen == {(2, (3, 2))}:
        lazy = False          # flushed under the send lock in the WANT_READ branch and after the successful read
    elif seen == {(1, (3,))}:
        lazy = True           # flushed in the WANT_READ branch; the successful read returns at once
    else:
        _fail(f"behavioural probe (send lock): with pending bytes in the outgoing BIO the pump must flush them under the "
              f"send lock in the WANT_READ branch, and after a successful read either always or never (recv and recv_into "
              f"alike): {o8}")
    if o8["sends_after_successful_handshake_and_write"] != [4, 11]:
        _fail(f"behavioural probe (send lock): what a successful do_handshake() / write() leaves in the outgoing BIO must be "
              f"sent before the call returns: {o8}")
    if n0 not in (0, 2):
        _fail(f"behavioural probe (send lock): the WANT_READ branch and the success branch disagree on when the send lock "
              f"is taken ({n0} acquisitions with an empty outgoing BIO)")
    skip = n0 == 0
    reads = o8["transport_reads_of_two_waiting_readers"]
    if reads not in (1, 2):
        _fail(f"behavioural probe (recv lock): {reads} transport reads for two waiting readers")
    recheck = reads == 1
    if e is None and v != (recheck, skip, lazy):
        _fail(f"pump switches: the reader of the source says f_recheck={v[0]}, f_skiplock={v[1]}, f_lazyread={v[2]}; the "
              f"behavioural probes f_recheck={recheck}, f_skiplock={skip}, f_lazyread={lazy}")
    prov = "ast+behavioural (agree)" if e is None else f"(behavioural) the reader of the source said: {e}"
    out["f_recheck"] = ("true" if recheck else "false", prov)
    out["f_skiplock"] = ("true" if skip else "false", prov)
    out["f_lazyread"] = ("true" if lazy else "false", prov)
    _MEMO[key] = out
    return out


def _head_first(heads, rest):
    """the shapes of the tree at HEAD first, then the systematic enumeration"""
    yield from heads
    yield from rest


C09_ORDER = [
    ("recv_handlers", "list (exc_class * hact)"), ("recv_into_handlers", "list (exc_class * hact)"),
    ("ssl_eof_patterns", "list eofpat"), ("retry_handler_order", "list exc_class"), ("flush_zero_return_is_reset", "bool"),
    ("aclose_unwrap_swallows", "list exc_class"), ("aclose_forceful_on", "list exc_class"), ("aclose_unwrap_if_std", "bool"),
    ("sync_wouldblock_read", "list exc_class"), ("sync_wouldblock_write", "list exc_class"),
    ("sync_recv_handlers", "list (exc_class * hact)"), ("sync_recv_into_handlers", "list (exc_class * hact)"),
    ("sync_close_swallows", "list exc_class"), ("sync_close_unwrap_if_std", "bool"),
]


def _mark(name, prov):
    if prov.startswith("(behavioural)"):
        return "(* %s: %s *)\n" % (name, prov[:260].replace("*)", "* )").replace("(*", "( *").replace('"', "'"))
    return ""


def c09_text():
    p = compute()
    out = ["From EN Require Import Lib.Bytes Conc.TlsBase.\n"]
    for name, ty in C09_ORDER:
        out.append(_mark(name, p[name][1]) + f"Definition {name} : {ty} := {p[name][0]}.\n")
    out.append(_mark("suppress_ragged_eofs", p["suppress_ragged_eofs"][1])
               + f"Definition suppress_ragged_eofs (std : bool) : bool := {p['suppress_ragged_eofs'][0]}.\n")
    out.append(_mark("client_default_ctx_clears_ignore_eof", p["client_default_ctx_clears_ignore_eof"][1])
               + f"Definition client_default_ctx_clears_ignore_eof : list bool := {p['client_default_ctx_clears_ignore_eof'][0]}.\n")
    return "".join(out)


def c08_text():
    p = compute()
    marks = "".join(_mark(n, p[n][1]) for n in ("f_recheck", "f_skiplock", "f_close_flush", "f_lazyread"))
    return ("From EN Require Import Conc.TlsPump.\n" + marks +
            f"Definition tls_flags : flags := {{| f_recheck := {p['f_recheck'][0]}; f_skiplock := {p['f_skiplock'][0]}; "
            f"f_close_flush := {p['f_close_flush'][0]}; f_lazyread := {p['f_lazyread'][0]} |}}.\n")


def provenance(names=None):
    try:
        p = compute()
    except TranslateError as exc:
        return dict(unavailable=str(exc))
    return {n: dict(value=v, obtained_by=prov) for n, (v, prov) in p.items() if names is None or n in names}
