"""Iteration-by-iteration control of the deterministic loop (shared by the C14 and C19 drivers).

A Stepper owns a DetLoop and runs it one `_run_once` iteration at a time (call_soon(stop) + run_forever), so that the
driver can apply an environment event (resolve a future, cancel a task, advance the virtual clock to the next timer)
between any two iterations.  Nothing here sleeps; a loop with nothing ready and no timer is reported as quiescent.
"""
from __future__ import annotations

import asyncio
import contextlib

from common import detloop


class StepLimit(RuntimeError):
    pass


class Stepper:
    def __init__(self, max_iterations=5000):
        self.loop = detloop.DetLoop(max_steps=200000)
        self.iterations = 0
        self.max_iterations = max_iterations

    def __enter__(self):
        asyncio.set_event_loop(self.loop)
        return self

    def __exit__(self, *exc):
        loop = self.loop
        try:
            pending = [t for t in asyncio.all_tasks(loop) if not t.done()]
            for t in pending:
                t.cancel()
            if pending:
                with contextlib.suppress(BaseException):
                    loop.run_until_complete(asyncio.gather(*pending, return_exceptions=True))
        finally:
            asyncio.set_event_loop(None)
            loop.close()
        return False

    # -- state
    def ready(self) -> bool:
        return bool(self.loop._ready)

    def next_timer(self):
        whens = [h._when for h in self.loop._scheduled if not h._cancelled]
        return min(whens) if whens else None

    # -- actions
    def iterate(self):
        """Exactly one loop iteration: every handle that is ready now (and every timer that is due) runs once."""
        self.iterations += 1
        if self.iterations > self.max_iterations:
            raise StepLimit(f"more than {self.max_iterations} loop iterations")
        self.loop.call_soon(self.loop.stop)
        self.loop.run_forever()

    def advance_to_timer(self) -> bool:
        when = self.next_timer()
        if when is None:
            return False
        if when > self.loop._vtime:
            self.loop._vtime = when
        return True

    def quiesce(self, until=None):
        """Iterate until nothing is ready (timers are NOT fired) or until() is true.  Returns iterations run."""
        n = 0
        while self.ready() and not (until is not None and until()):
            self.iterate()
            n += 1
        return n

    def step_or_time(self) -> str:
        """One iteration if something is ready, else advance the clock to the next timer and run it.
        Returns 'ran', 'timer' or 'idle' (nothing ready, no timer)."""
        if self.ready():
            self.iterate()
            return "ran"
        if self.advance_to_timer():
            self.iterate()
            return "timer"
        return "idle"
