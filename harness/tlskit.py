"""Shared TLS harness code for C08 / C09 (owned by those two properties).

* static self-signed certificate in harness/certs (RSA-2048, so every handshake flight has a fixed length)
* Recorder            one global, ordered event log of a run
* RecSSLObject/RecBIO recording proxies placed between AsyncTLSStreamTransport and the real ssl.SSLObject / MemoryBIO
* MemTransport        in-memory AsyncStreamTransport with a scripted peer (an independent stdlib ssl.SSLObject pumped
                      by the harness), scripted fragment sizes, a cut offset and optional suspensions
* Peer                the independent stdlib ssl.SSLObject

Event log entries (tid = small int per asyncio task, in order of first appearance):
    ("ssl",  tid, method, arg, outcome_code, value, wdelta) one call on the SSL object and how it ended
    ("feed", tid, n)                                        read_bio.write(n bytes)
    ("cancel", tid)                                         a cancellation was delivered inside send_all / recv_into
    ("send", tid, nbytes, from_bio)                         transport.send_all started (payload length, payload == last wbio.read())
    ("sent", tid, ok)                                       transport.send_all finished (ok=1) / raised OSError (0)
    ("recv", tid)                                           transport.recv_into started
    ("rcvd", tid, n)                                        transport.recv_into finished: n>0 bytes, 0 = EOF, -1 = OSError
    ("reof", tid) ("weof", tid)                             read_bio.write_eof() / write_bio.write_eof()
    ("close", tid)                                          transport.aclose() called on the wrapped transport
"""
from __future__ import annotations

import asyncio
import os
import ssl
import types

from easynetwork.lowlevel.api_async.backend._asyncio.backend import AsyncIOBackend
from easynetwork.lowlevel.api_async.transports import tls as tls_mod
from easynetwork.lowlevel.api_async.transports.abc import AsyncStreamTransport

CERT_DIR = os.path.join(os.path.dirname(os.path.abspath(__file__)), "certs")
CERT = os.path.join(CERT_DIR, "cert.pem")
KEY = os.path.join(CERT_DIR, "key.pem")

TLS12, TLS13 = 12, 13
_VER = {TLS12: ssl.TLSVersion.TLSv1_2, TLS13: ssl.TLSVersion.TLSv1_3}

# outcome codes of one SSL-object call (shared with coq/Conc/TlsPump.v)
O_OK, O_WANT_READ, O_WANT_WRITE, O_ZERO_RETURN, O_SSL_EOF, O_SSL_EOF_STR, O_SSL_SYSCALL, O_SSL_OTHER, O_CERT, O_OSERROR, \
    O_OTHER_EXC = range(11)
# SSL-object methods
M_HANDSHAKE, M_READ, M_WRITE, M_UNWRAP = range(4)
METHOD_CODE = {"do_handshake": M_HANDSHAKE, "read": M_READ, "write": M_WRITE, "unwrap": M_UNWRAP}

_ctx_cache = {}


def server_ctx(ver, ignore_eof=False):
    key = ("s", ver, ignore_eof)
    if key not in _ctx_cache:
        ctx = ssl.SSLContext(ssl.PROTOCOL_TLS_SERVER)
        ctx.load_cert_chain(CERT, KEY)
        ctx.minimum_version = ctx.maximum_version = _VER[ver]
        if ignore_eof:
            ctx.options |= ssl.OP_IGNORE_UNEXPECTED_EOF
        else:
            ctx.options &= ~ssl.OP_IGNORE_UNEXPECTED_EOF
        _ctx_cache[key] = ctx
    return _ctx_cache[key]


def client_ctx(ver, ignore_eof=False):
    key = ("c", ver, ignore_eof)
    if key not in _ctx_cache:
        ctx = ssl.SSLContext(ssl.PROTOCOL_TLS_CLIENT)
        ctx.load_verify_locations(CERT)
        ctx.minimum_version = ctx.maximum_version = _VER[ver]
        if ignore_eof:
            ctx.options |= ssl.OP_IGNORE_UNEXPECTED_EOF
        else:
            ctx.options &= ~ssl.OP_IGNORE_UNEXPECTED_EOF
        _ctx_cache[key] = ctx
    return _ctx_cache[key]


def fresh_ctx(client, ver, ignore_eof=False):
    """a context of its own (not the cached one): for histories of several transports created from ONE context"""
    key = ("c" if client else "s", ver, ignore_eof)
    saved = _ctx_cache.pop(key, None)
    try:
        return client_ctx(ver, ignore_eof) if client else server_ctx(ver, ignore_eof)
    finally:
        _ctx_cache.pop(key, None)
        if saved is not None:
            _ctx_cache[key] = saved


def pha_ctxs():
    """TLS 1.3 contexts for post-handshake client authentication: (server, client); the client has a certificate and
    answers a CertificateRequest from inside ssl_object.read()."""
    if "pha" not in _ctx_cache:
        srv = ssl.SSLContext(ssl.PROTOCOL_TLS_SERVER)
        srv.load_cert_chain(CERT, KEY)
        srv.minimum_version = srv.maximum_version = ssl.TLSVersion.TLSv1_3
        srv.load_verify_locations(CERT)
        srv.verify_mode = ssl.CERT_REQUIRED
        srv.post_handshake_auth = True          # => no certificate request during the initial handshake
        cli = ssl.SSLContext(ssl.PROTOCOL_TLS_CLIENT)
        cli.load_verify_locations(CERT)
        cli.load_cert_chain(CERT, KEY)
        cli.minimum_version = cli.maximum_version = ssl.TLSVersion.TLSv1_3
        cli.post_handshake_auth = True
        cli.options &= ~ssl.OP_IGNORE_UNEXPECTED_EOF
        _ctx_cache["pha"] = (srv, cli)
    return _ctx_cache["pha"]


class TransportSpin(BaseException):
    """Raised by the harness transports when the code under test keeps reading a connection which has already reported its
    end (SPIN_LIMIT consecutive zero-byte answers): the caller is polling in a loop which would never end.  A BaseException,
    so that no handler of the code under test swallows or converts it; every check sees it as its own outcome."""


SPIN_LIMIT = 64


def classify(exc) -> int:
    """Outcome class of an exception raised by an SSL-object method (the distinctions the transports make)."""
    if isinstance(exc, ssl.SSLWantReadError):
        return O_WANT_READ
    if isinstance(exc, ssl.SSLWantWriteError):
        return O_WANT_WRITE
    if isinstance(exc, ssl.SSLZeroReturnError):
        return O_ZERO_RETURN
    if isinstance(exc, ssl.SSLEOFError):
        return O_SSL_EOF
    if isinstance(exc, ssl.SSLCertVerificationError):
        return O_CERT
    if isinstance(exc, ssl.SSLSyscallError):
        return O_SSL_SYSCALL
    if isinstance(exc, ssl.SSLError):
        if "UNEXPECTED_EOF_WHILE_READING" in (getattr(exc, "strerror", None) or ""):
            return O_SSL_EOF_STR
        return O_SSL_OTHER
    if isinstance(exc, OSError):
        return O_OSERROR
    return O_OTHER_EXC


class Recorder:
    def __init__(self):
        self.events = []
        self._tids = {}
        self.cipher_out = bytearray()     # every byte handed to the wrapped transport
        self.bio_out = bytearray()        # every byte read from the outgoing BIO
        self.last_bio_read = None

    def tid(self):
        try:
            t = asyncio.current_task()
        except RuntimeError:
            t = None
        k = id(t) if t is not None else 0
        if k not in self._tids:
            self._tids[k] = len(self._tids)
        return self._tids[k]

    def name_task(self, n):
        """Pin the current task to tid n (call first thing in the task)."""
        t = asyncio.current_task()
        self._tids[id(t)] = n

    def begin_op(self, *desc):
        """The current asyncio task starts a new pumped operation: it gets the next id, logged as ("op", id, *desc)."""
        t = asyncio.current_task()
        n = self.nops = getattr(self, "nops", 0) + 1
        self._tids[id(t)] = n - 1
        self.log("op", n - 1, *desc)
        return n - 1

    def log(self, *ev):
        self.events.append(tuple(ev))


class RecLock:
    """asyncio.Lock wrapper that logs every acquisition: ("acq", tid, which)  (which: 0 = first lock created = send
    lock, 1 = recv lock)."""

    def __init__(self, real, rec, which):
        self.real, self.rec, self.which = real, rec, which

    async def acquire(self):
        try:
            await self.real.acquire()
        except asyncio.CancelledError:
            self.rec.log("cancel", self.rec.tid())
            raise
        self.rec.log("acq", self.rec.tid(), self.which)
        return True

    def release(self):
        self.real.release()

    def locked(self):
        return self.real.locked()

    async def __aenter__(self):
        await self.acquire()

    async def __aexit__(self, *a):
        self.release()


class RecBackend:
    """The backend handed out by the wrapped transport: create_fair_lock() gives recording locks."""

    def __init__(self, real, rec):
        self._real, self._rec, self._n = real, rec, 0

    def create_fair_lock(self):
        lock = RecLock(self._real.create_fair_lock(), self._rec, self._n)
        self._n += 1
        return lock

    def __getattr__(self, name):
        return getattr(self._real, name)


class RecBIO:
    """Proxy for ssl.MemoryBIO as seen by the transport (the SSL object keeps the real one)."""

    def __init__(self, rec: Recorder, role: str):
        self.real = ssl.MemoryBIO()
        self.rec = rec
        self.role = role

    @property
    def pending(self):
        return self.real.pending

    @property
    def eof(self):
        return self.real.eof

    def read(self, n=-1):
        data = self.real.read(n)
        if self.role == "w":
            self.rec.bio_out += data
            self.rec.last_bio_read = data
        return data

    def write(self, data):
        if self.role == "r":
            self.rec.log("feed", self.rec.tid(), len(data))
        return self.real.write(data)

    def write_eof(self):
        self.rec.log("reof" if self.role == "r" else "weof", self.rec.tid())
        return self.real.write_eof()


class RecSSLObject:
    """Recording proxy for ssl.SSLObject: logs every pumped call with its outcome class and the number of bytes the
    call appended to the outgoing BIO."""

    def __init__(self, real: ssl.SSLObject, rec: Recorder, wbio: RecBIO):
        self._real = real
        self._rec = rec
        self._wbio = wbio

    def _call(self, name, fn, *args):
        before = self._wbio.real.pending
        arg = 0
        if name == "read":
            arg = int(args[0]) if args else 1024
        elif name == "write":
            arg = len(args[0])
        try:
            res = fn(*args)
        except BaseException as exc:
            self._rec.log("ssl", self._rec.tid(), METHOD_CODE[name], arg, classify(exc), 0, self._wbio.real.pending - before)
            raise
        if isinstance(res, (bytes, bytearray)):
            val = len(res)
        elif isinstance(res, int):
            val = res
        else:
            val = 0
        self._rec.log("ssl", self._rec.tid(), METHOD_CODE[name], arg, O_OK, val, self._wbio.real.pending - before)
        return res

    def do_handshake(self):
        return self._call("do_handshake", self._real.do_handshake)

    def read(self, *args):
        return self._call("read", self._real.read, *args)

    def write(self, data):
        return self._call("write", self._real.write, data)

    def unwrap(self):
        return self._call("unwrap", self._real.unwrap)

    def __getattr__(self, name):
        return getattr(self._real, name)


class RecContext:
    """Stands for the SSLContext handed to AsyncTLSStreamTransport.wrap: wrap_bio() gives a recording SSL object."""

    def __init__(self, real_ctx: ssl.SSLContext, rec: Recorder):
        self.real = real_ctx
        self.rec = rec
        self.ssl_object = None

    # the library may read / change the options of the context it is given: forward to the real one
    @property
    def options(self):
        return self.real.options

    @options.setter
    def options(self, value):
        self.real.options = value

    def wrap_bio(self, read_bio, write_bio, server_side=False, server_hostname=None, session=None):
        assert isinstance(read_bio, RecBIO) and isinstance(write_bio, RecBIO)
        obj = self.real.wrap_bio(read_bio.real, write_bio.real, server_side=server_side,
                                 server_hostname=server_hostname, session=session)
        self.ssl_object = RecSSLObject(obj, self.rec, write_bio)
        return self.ssl_object


class _SslShim(types.SimpleNamespace):
    pass


class patched_ssl_module:
    """Context manager: tls.py's `_ssl_module.MemoryBIO()` yields RecBIOs (read BIO first, write BIO second)."""

    def __init__(self, rec: Recorder):
        self.rec = rec

    def __enter__(self):
        self.saved = tls_mod._ssl_module
        roles = iter("rw" * 8)
        shim = _SslShim(**{k: getattr(ssl, k) for k in dir(ssl) if not k.startswith("__")})
        shim.MemoryBIO = lambda: RecBIO(self.rec, next(roles))
        tls_mod._ssl_module = shim
        return self

    def __exit__(self, *a):
        tls_mod._ssl_module = self.saved


class Peer:
    """Independent stdlib ssl.SSLObject over two MemoryBIOs, pumped by the harness."""

    def __init__(self, ctx, server_side, script):
        self.inc = ssl.MemoryBIO()
        self.out = ssl.MemoryBIO()
        self.obj = ctx.wrap_bio(self.inc, self.out, server_side=server_side,
                                server_hostname=None if server_side else "localhost")
        self.script = list(script)       # [("write", bytes) | ("unwrap",) | ("read",)] run once the handshake is done
        self.handshaken = False
        self.plain_in = bytearray()
        self.got_close_notify = False
        self.read_error = None
        self.total_out = 0
        self.reply_close = False         # answer the other side's close-notify with our own
        self.lazy = False                # run one script step per pump() instead of the whole script
        self.echo = False                # write back every plaintext byte received (request/response peer)
        self.echoed = 0
        self.replied = False

    def feed(self, data: bytes):
        if data:
            self.inc.write(data)
        else:
            self.inc.write_eof()

    def pump(self) -> bytes:
        """Advance as far as possible; return newly produced ciphertext."""
        if not self.handshaken:
            try:
                self.obj.do_handshake()
                self.handshaken = True
            except ssl.SSLWantReadError:
                pass
            except ssl.SSLError as exc:
                self.read_error = classify(exc)
        if self.handshaken:
            budget = 1 if self.lazy else len(self.script)
            while self.script and budget > 0:
                budget -= 1
                step = self.script.pop(0)
                try:
                    if step[0] == "write":
                        self.obj.write(step[1])
                    elif step[0] == "unwrap":
                        try:
                            self.obj.unwrap()
                        except ssl.SSLWantReadError:
                            pass
                except ssl.SSLError as exc:
                    self.read_error = classify(exc)
            self.drain_plain()
            if self.echo and self.echoed < len(self.plain_in) and self.read_error is None:
                try:
                    self.obj.write(bytes(self.plain_in[self.echoed:]))
                    self.echoed = len(self.plain_in)
                except ssl.SSLError as exc:
                    self.read_error = classify(exc)
            if self.got_close_notify and self.reply_close and not self.replied:
                self.replied = True
                try:
                    self.obj.unwrap()
                except ssl.SSLError:
                    pass
        out = self.out.read()
        self.total_out += len(out)
        return out

    def drain_plain(self):
        while not self.got_close_notify and self.read_error is None:
            try:
                d = self.obj.read(65536)
            except ssl.SSLWantReadError:
                return
            except ssl.SSLZeroReturnError:
                self.got_close_notify = True
                return
            except ssl.SSLError as exc:
                self.read_error = classify(exc)
                return
            if not d:
                self.got_close_notify = True
                return
            self.plain_in += d


class MemTransport(AsyncStreamTransport):
    """In-memory wrapped transport.  Outgoing bytes go to the peer (pumped at once); incoming bytes are what the peer
    has produced, handed out in scripted fragment sizes, cut at `cut` bytes (then EOF)."""

    def __init__(self, rec: Recorder, peer: Peer, backend, *, cut=None, frags=None, send_yields=0, recv_yields=0,
                 send_fail_at=None, gate=None, recv_script=None, send_script=None):
        super().__init__()
        self.rec = rec
        self.peer = peer
        self._backend = backend
        self.cut = cut
        self.frags = frags                    # callable(avail) -> n, or None for "everything available"
        self.send_yields = send_yields        # callable() -> number of loop iterations send_all suspends, or int
        self.recv_yields = recv_yields
        self.send_fail_at = send_fail_at      # index of the send_all call that raises ConnectionResetError
        self.gate = gate                      # optional callable(kind) awaited before completing (scheduler hook)
        self.recv_script = recv_script        # scripted recv_into answers: n>0 bytes, 0 EOF, -1 OSError, -2 never answers
        self.send_script = send_script        # scripted send_all answers: 1 ok, 0 OSError, -2 never answers
        self.stream = bytearray()             # produced by the peer, not yet delivered
        self.delivered = 0
        self.nsend = 0
        self.closed = False
        self.closing = False
        self.sending = 0
        self.overlap = False                  # two send_all calls in flight at once (lock discipline broken)
        self.recving = 0
        self.recv_overlap = False
        self.data_event = asyncio.Event()
        self.zero_answers = 0                 # consecutive zero-byte answers of recv_into (see TransportSpin)
        self.peer_silent_eof = True           # nothing more to come from the peer => EOF (never block forever)
        self.writable = asyncio.Event()       # cleared = back-pressure: send_all() parks until it is set again
        self.writable.set()
        self.send_pieces = 0                  # > 0: send_all is NOT atomic: it delivers pieces of this size and yields in between
        self.deliver_early = 0                # > 0: like a BufferedProtocol: the bytes are written into the caller's buffer when
        #                                       they arrive, the waiting task is only woken up that many loop iterations later

    # -- AsyncBaseTransport
    def backend(self):
        return self._backend

    def is_closing(self):
        return self.closing

    async def aclose(self):
        self.rec.log("close", self.rec.tid())
        self.closing = True
        self.closed = True
        await asyncio.sleep(0)

    @property
    def extra_attributes(self):
        return {}

    async def send_eof(self):
        raise NotImplementedError

    async def _yield(self, spec, kind):
        n = spec() if callable(spec) else spec
        for _ in range(n):
            await asyncio.sleep(0)
        if self.gate is not None:
            await self.gate(kind)

    async def send_all(self, data):
        data = bytes(data)
        tid = self.rec.tid()
        self.rec.log("send", tid, len(data), int(self.rec.last_bio_read is not None and data == self.rec.last_bio_read))
        self.rec.cipher_out += data
        self.sending += 1
        if self.sending > 1:
            self.overlap = True
        try:
            idx = self.nsend
            self.nsend += 1
            try:
                await self._yield(self.send_yields, "send")
                if not self.writable.is_set():
                    await self.writable.wait()
                if self.send_script is not None:
                    a = self.send_script.pop(0) if self.send_script else 1
                    if a == -2:
                        await asyncio.Event().wait()
                    if a == 0:
                        self.rec.log("sent", tid, 0)
                        raise ConnectionResetError(104, "scripted reset")
                    self.rec.log("sent", tid, 1)
                    return
            except asyncio.CancelledError:
                self.rec.log("cancel", tid)
                raise
            if self.closed or (self.send_fail_at is not None and idx >= self.send_fail_at):
                self.rec.log("sent", tid, 0)
                raise ConnectionResetError(104, "scripted reset")
            if self.send_pieces:
                try:
                    for off in range(0, len(data), self.send_pieces):
                        self.peer.feed(data[off:off + self.send_pieces])
                        self.stream += self.peer.pump()
                        self.data_event.set()
                        await asyncio.sleep(0)
                except asyncio.CancelledError:
                    self.rec.log("cancel", tid)
                    raise
            else:
                self.peer.feed(data)
                self.stream += self.peer.pump()
                self.data_event.set()
            self.rec.log("sent", tid, 1)
        finally:
            self.sending -= 1

    async def recv_into(self, buffer):
        tid = self.rec.tid()
        self.rec.log("recv", tid)
        self.recving += 1
        if self.recving > 1:
            self.recv_overlap = True
        try:
            try:
                await self._yield(self.recv_yields, "recv")
                if self.recv_script is not None:
                    a = self.recv_script.pop(0) if self.recv_script else 0
                    if a == -2:
                        await asyncio.Event().wait()
            except asyncio.CancelledError:
                self.rec.log("cancel", tid)
                raise
            if self.recv_script is not None:
                if a == -1:
                    self.rec.log("rcvd", tid, -1)
                    raise ConnectionResetError(104, "scripted reset")
                a = min(a, memoryview(buffer).nbytes)
                memoryview(buffer)[:a] = bytes(a)
                self.rec.log("rcvd", tid, a)
                self._count_zero(a)
                return a
            if self.closed:
                self.rec.log("rcvd", tid, -1)
                raise ConnectionAbortedError(103, "closed")
            while True:
                limit = None if self.cut is None else self.cut - self.delivered
                avail = len(self.stream) if limit is None else min(len(self.stream), limit)
                if avail > 0:
                    n = avail if self.frags is None else max(1, min(avail, self.frags(avail)))
                    n = min(n, memoryview(buffer).nbytes)
                    memoryview(buffer)[:n] = self.stream[:n]
                    del self.stream[:n]
                    self.delivered += n
                    for _ in range(self.deliver_early):
                        await asyncio.sleep(0)
                    self.rec.log("rcvd", tid, n)
                    self._count_zero(n)
                    return n
                if limit is not None and limit <= 0:
                    break
                # nothing available: let the peer speak if it has something to say on its own
                more = self.peer.pump()
                if more:
                    self.stream += more
                    continue
                if self.peer_silent_eof:
                    break
                self.data_event.clear()
                try:
                    await self.data_event.wait()
                except asyncio.CancelledError:
                    self.rec.log("cancel", tid)
                    raise
            self.rec.log("rcvd", tid, 0)
            self._count_zero(0)
            return 0
        finally:
            self.recving -= 1

    def _count_zero(self, n):
        self.zero_answers = self.zero_answers + 1 if n == 0 else 0
        if self.zero_answers > SPIN_LIMIT:
            self.zero_answers = 0
            raise TransportSpin("the wrapped transport's end-of-stream was read %d times in a row" % SPIN_LIMIT)

    async def recv(self, bufsize):
        buf = bytearray(bufsize)
        n = await self.recv_into(buf)
        return bytes(buf[:n])


class RecTransportProxy(AsyncStreamTransport):
    """Recording wrapper around a REAL wrapped transport (asyncio socket transport of the backend): same log entries as
    MemTransport."""

    def __init__(self, real, rec: Recorder):
        super().__init__()
        self.real, self.rec = real, rec

    def backend(self):
        return self.real.backend()

    def is_closing(self):
        return self.real.is_closing()

    async def aclose(self):
        self.rec.log("close", self.rec.tid())
        await self.real.aclose()

    @property
    def extra_attributes(self):
        return self.real.extra_attributes

    async def send_eof(self):
        await self.real.send_eof()

    async def send_all(self, data):
        data = bytes(data)
        tid = self.rec.tid()
        self.rec.log("send", tid, len(data), int(self.rec.last_bio_read is not None and data == self.rec.last_bio_read))
        self.rec.cipher_out += data
        try:
            await self.real.send_all(data)
        except asyncio.CancelledError:
            self.rec.log("cancel", tid)
            raise
        except OSError:
            self.rec.log("sent", tid, 0)
            raise
        self.rec.log("sent", tid, 1)

    async def recv_into(self, buffer):
        tid = self.rec.tid()
        self.rec.log("recv", tid)
        try:
            n = await self.real.recv_into(buffer)
        except asyncio.CancelledError:
            self.rec.log("cancel", tid)
            raise
        except OSError:
            self.rec.log("rcvd", tid, -1)
            raise
        self.rec.log("rcvd", tid, n)
        self.zero_answers = getattr(self, "zero_answers", 0) + 1 if n == 0 else 0
        if self.zero_answers > SPIN_LIMIT:
            self.zero_answers = 0
            raise TransportSpin("the wrapped transport's end-of-stream was read %d times in a row" % SPIN_LIMIT)
        return n

    async def recv(self, bufsize):
        buf = bytearray(bufsize)
        n = await self.recv_into(buf)
        return bytes(buf[:n])


class patched_tls_wrap:
    """Context manager: AsyncTLSStreamTransport.wrap(transport, ctx, ...) gets a recording transport proxy, a recording
    SSL object and recording BIOs, whoever calls it (e.g. AsyncTCPNetworkClient)."""

    def __init__(self, rec: Recorder):
        self.rec = rec
        self.ssl_patch = patched_ssl_module(rec)

    def __enter__(self):
        rec = self.rec
        cls = tls_mod.AsyncTLSStreamTransport
        self.saved = cls.__dict__["wrap"]
        orig = self.saved.__func__

        async def wrap(klass, transport, ssl_context, **kw):
            return await orig(klass, RecTransportProxy(transport, rec), RecContext(ssl_context, rec), **kw)

        cls.wrap = classmethod(wrap)
        self.ssl_patch.__enter__()
        return self

    def __exit__(self, *a):
        self.ssl_patch.__exit__(*a)
        tls_mod.AsyncTLSStreamTransport.wrap = self.saved


class CountingTask(asyncio.tasks._PyTask):
    """A task that counts its resumptions and delivers a cancellation at the k-th one, i.e. at whatever suspension
    point the coroutine is parked on at that moment (any await: locks, transport calls, checkpoints ...)."""

    def __init__(self, coro, *, loop, cancel_at=0):
        self.nsteps = 0
        self.cancel_at = cancel_at
        super().__init__(coro, loop=loop)

    def _Task__step(self, exc=None):
        self.nsteps += 1
        if self.cancel_at and self.nsteps == self.cancel_at and not self.done():
            self._must_cancel = True
        return super()._Task__step(exc)


def new_backend():
    return AsyncIOBackend()


def record_boundaries(stream: bytes):
    """Offsets at which a TLS record ends in a ciphertext stream (5-byte header: type, version, length)."""
    out, pos = [], 0
    while pos + 5 <= len(stream):
        ln = int.from_bytes(stream[pos + 3:pos + 5], "big")
        pos += 5 + ln
        out.append((pos, stream[pos - 5 - ln]))
    return out


# ------------------------------------------------------------------ blocking transport, several threads

import threading as _threading


class ThreadRawSSLProxy:
    """Stands in for SSLSocket._sslobj: records [thread tag, method, outcome, value] of every raw call and serialises
    the calls (CPython 3.12's _ssl has no per-object lock; OpenSSL objects must not be entered concurrently)."""

    def __init__(self, real, log, tags):
        object.__setattr__(self, "_real", real)
        object.__setattr__(self, "_log", log)
        object.__setattr__(self, "_tags", tags)
        object.__setattr__(self, "_mutex", _threading.Lock())

    def _call(self, m, fn, *args):
        tag = self._tags.get(_threading.get_ident(), 0)
        with self._mutex:
            try:
                r = fn(*args)
            except BaseException as exc:
                self._log.append([tag, m, classify(exc), 0])
                raise
            self._log.append([tag, m, O_OK, len(r) if isinstance(r, (bytes, bytearray)) else r if isinstance(r, int) else 0])
            return r

    def do_handshake(self):
        return self._call(M_HANDSHAKE, self._real.do_handshake)

    def read(self, *args):
        return self._call(M_READ, self._real.read, *args)

    def write(self, data):
        return self._call(M_WRITE, self._real.write, data)

    def shutdown(self):
        return self._call(M_UNWRAP, self._real.shutdown)

    def __getattr__(self, name):
        return getattr(self._real, name)

    def __setattr__(self, name, value):
        setattr(self._real, name, value)


class ThreadRawRecContext:
    def __init__(self, real, log, tags):
        self.real, self.log, self.tags = real, log, tags

    @property
    def options(self):
        return self.real.options

    @options.setter
    def options(self, value):
        self.real.options = value

    def wrap_socket(self, sock, **kw):
        s = self.real.wrap_socket(sock, **kw)
        s._sslobj = ThreadRawSSLProxy(s._sslobj, self.log, self.tags)
        return s
