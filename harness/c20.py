"""C20 — sending applies backpressure and never hangs on a dead connection.

The driver runs the REAL WriteFlowControl, AsyncioTransportStreamSocketAdapter (+ StreamReaderBufferedProtocol),
DatagramEndpoint (+ DatagramEndpointProtocol) and DatagramListenerSocketAdapter (+ DatagramListenerProtocol) of /repo
on the deterministic loop.  For the adapters the transports are the interpreter's real asyncio selector transports
(_SelectorSocketTransport / _SelectorDatagramTransport) sitting on a scripted fake socket: the script decides how many
bytes the "kernel" accepts on each call and when the socket becomes writable, so a peer that stops reading is
reproduced exactly and instantly.  The same script is replayed by coq/Run/C20.v on the model.
"""
from __future__ import annotations

import asyncio
import contextlib
import inspect
import logging
import itertools
import json
import os
import socket as _socket

from common import detloop

PROPERTY_ID = "C20"
RUN_MODULE = "Run.C20"
PROPS_FILE = "Props/C20.v"
ALLOWED_AXIOMS = []
_FC = "src/easynetwork/lowlevel/api_async/backend/_asyncio/_flow_control.py"
_ST = "src/easynetwork/lowlevel/api_async/backend/_asyncio/stream/socket.py"
_DE = "src/easynetwork/lowlevel/api_async/backend/_asyncio/datagram/endpoint.py"
_DL = "src/easynetwork/lowlevel/api_async/backend/_asyncio/datagram/listener.py"
ANCHORS = [
    (_FC, "WriteFlowControl.__init__"), (_FC, "WriteFlowControl.drain"), (_FC, "WriteFlowControl.pause_writing"),
    (_FC, "WriteFlowControl.resume_writing"), (_FC, "WriteFlowControl.connection_lost"),
    (_ST, "AsyncioTransportStreamSocketAdapter.__init__"), (_ST, "AsyncioTransportStreamSocketAdapter.send_all"),
    (_ST, "AsyncioTransportStreamSocketAdapter.send_all_from_iterable"),
    (_ST, "AsyncioTransportStreamSocketAdapter.aclose"), (_DE, "DatagramEndpoint.aclose"), (_DE, "DatagramEndpoint.close_nowait"),
    (_DL, "DatagramListenerSocketAdapter.aclose"),
    (_ST, "StreamReaderBufferedProtocol.connection_made"), (_ST, "StreamReaderBufferedProtocol.connection_lost"),
    (_ST, "StreamReaderBufferedProtocol.pause_writing"), (_ST, "StreamReaderBufferedProtocol.resume_writing"),
    (_ST, "StreamReaderBufferedProtocol.writer_drain"),
    (_DE, "DatagramEndpoint.sendto"), (_DE, "DatagramEndpoint.__init__"), (_DE, "DatagramEndpointProtocol.connection_made"),
    (_DE, "DatagramEndpointProtocol.connection_lost"), (_DE, "DatagramEndpointProtocol.pause_writing"),
    (_DE, "DatagramEndpointProtocol.resume_writing"), (_DE, "DatagramEndpointProtocol._drain_helper"),
    (_DL, "DatagramListenerSocketAdapter.send_to"), (_DL, "DatagramListenerSocketAdapter.__init__"),
    (_DL, "DatagramListenerProtocol.connection_made"), (_DL, "DatagramListenerProtocol.connection_lost"),
    (_DL, "DatagramListenerProtocol.pause_writing"), (_DL, "DatagramListenerProtocol.resume_writing"),
    (_DL, "DatagramListenerProtocol.writer_drain"),
]
RULE = ("case = (object kind, transport configuration read from the real transport, number of tasks, script).  Script "
        "actions: start a drain()/send (n bytes of which the kernel takes k at once), pause/resume/connection_lost/"
        "is_closing notifications (WriteFlowControl alone) or socket-writable(k)/transport death/close() (adapters), "
        "task.cancel(), run one loop iteration, run until idle.  Scripts are enumerated breadth-first, EXHAUSTIVELY up to "
        "a bound on the number of actions, choosing among the actions enabled in the implementation's current state; "
        "random longer scripts with batches on top.  Non-trivial = at some snapshot a sender is suspended "
        "(parked on the flow control) .")
TRUSTED = ["hand-written model coq/Conc/FlowControl.v (WriteFlowControl; adapter = transport + flow control); the asyncio "
           "ready-queue discipline encoded in coq/Run/C20.v",
           "the transport part of the model (user-space buffer, _protocol_paused, water marks, write / writelines / sendto / "
           "_write_ready / _force_close / close) describes CPython's asyncio selector transports, which are external to "
           "/repo; it is validated by running the interpreter's real transport classes on a scripted socket",
           "private attribute _WriteFlowControl__drain_waiters is read to observe the waiter deque length"]
ASSUMPTIONS = ["H_pause (theorem hypothesis): high = low = 0 and every write path calls _maybe_pause_protocol; read from the "
               "real transport on every run (extra()): false for writelines on CPython 3.12.1 (F6) and for the datagram "
               "transports, which keep asyncio's 64 KiB mark (F5)",
               "a task has at most one send in flight"]

K_FLOW, K_SEND_ALL, K_SEND_ITER, K_DGRAM_EP, K_DGRAM_LISTENER = range(5)
KIND_NAMES = {K_FLOW: "flow-control", K_SEND_ALL: "stream.send_all", K_SEND_ITER: "stream.send_all_from_iterable",
              K_DGRAM_EP: "datagram-endpoint.sendto", K_DGRAM_LISTENER: "datagram-listener.send_to"}
A_SEND, A_READY, A_RESUME, A_LOST, A_CLOSE, A_CANCEL, A_TICK, A_SETTLE = range(8)
A_ACLOSE, A_CANCEL_ACLOSE = 8, 9     # adapters: a task running aclose(); cancel that task
A_PAUSE = 1   # kind 0: [1] is pause_writing, [1, k] is socket-writable for the adapters

FD = 987
logging.getLogger("asyncio").setLevel(logging.CRITICAL)


class HarnessLoop(detloop.DetLoop):
    """readers / writers of fake sockets are recorded instead of being registered with the selector"""

    def __init__(self, **kw):
        super().__init__(**kw)
        self.fake_readers = {}
        self.fake_writers = {}

    def _add_reader(self, fd, callback, *args):
        if fd == FD:
            self.fake_readers[fd] = (callback, args)
            return None
        return super()._add_reader(fd, callback, *args)

    def _remove_reader(self, fd):
        if fd == FD:
            return self.fake_readers.pop(fd, None) is not None
        return super()._remove_reader(fd)

    def _add_writer(self, fd, callback, *args):
        if fd == FD:
            self.fake_writers[fd] = (callback, args)
            return None
        return super()._add_writer(fd, callback, *args)

    def _remove_writer(self, fd):
        if fd == FD:
            return self.fake_writers.pop(fd, None) is not None
        return super()._remove_writer(fd)


@contextlib.contextmanager
def running():
    loop = HarnessLoop()
    try:
        asyncio.set_event_loop(loop)
        yield loop
    finally:
        try:
            pending = [t for t in asyncio.all_tasks(loop) if not t.done()]
            for t in pending:
                t.cancel()
            if pending:
                with contextlib.suppress(BaseException):
                    loop.run_until_complete(asyncio.gather(*pending, return_exceptions=True))
        finally:
            asyncio.set_event_loop(None)
            loop.close()


def _task_name():
    try:
        t = asyncio.current_task()
    except RuntimeError:
        return None
    return t.get_name() if t is not None else None


class FakeSock:
    """a non-blocking socket whose kernel side is scripted"""

    def __init__(self, type_):
        self.family = _socket.AF_UNIX
        self.type = type_
        self.proto = 0
        self.accept = {}        # task name -> bytes the kernel takes on that task's first call
        self.budget = 0         # bytes (stream) / datagrams (datagram) the kernel takes during a writable callback
        self.wire = bytearray()
        self.recv_error = None
        self.closed = False

    def fileno(self):
        return -1 if self.closed else FD

    def setblocking(self, flag):
        pass

    def gettimeout(self):
        return 0.0

    def getsockname(self):
        return "/harness"

    def getpeername(self):
        if self.type == _socket.SOCK_DGRAM:
            raise OSError(107, "not connected")
        return "/peer"

    def getsockopt(self, *a):
        return 0

    def setsockopt(self, *a):
        pass

    def close(self):
        self.closed = True

    def shutdown(self, how):
        pass

    def _take(self, total):
        name = _task_name()
        if name is not None:
            k = self.accept.pop(name, 0)
        else:
            k = self.budget
        if k <= 0:
            raise BlockingIOError(11, "would block (harness)")
        n = min(k, total)
        if name is None:
            self.budget -= n
        return n

    def send(self, data):
        data = bytes(data)
        if self.type == _socket.SOCK_DGRAM:
            return self.sendto(data, None)
        n = self._take(len(data))
        self.wire += data[:n]
        return n

    def sendmsg(self, buffers):
        data = b"".join(bytes(b) for b in buffers)
        n = self._take(len(data))
        self.wire += data[:n]
        return n

    def sendto(self, data, addr=None):
        data = bytes(data)
        name = _task_name()
        if name is not None:
            ok = self.accept.pop(name, 0) > 0
        else:
            ok = self.budget > 0
            if ok:
                self.budget -= 1
        if not ok:
            raise BlockingIOError(11, "would block (harness)")
        self.wire += data
        return len(data)

    def recv_into(self, buf):
        if self.recv_error is not None:
            raise self.recv_error
        raise BlockingIOError(11, "nothing to read (harness)")

    def recv(self, n):
        if self.recv_error is not None:
            raise self.recv_error
        raise BlockingIOError(11, "nothing to read (harness)")

    def recvfrom(self, n):
        raise BlockingIOError(11, "nothing to read (harness)")


class StubTransport:
    def __init__(self):
        self.closing = False

    def is_closing(self):
        return self.closing


class HarnessConnError(ConnectionResetError):
    pass


def _code(task):
    if not task.done():
        return 1
    if task.cancelled():
        return 11
    exc = task.exception()
    if exc is None:
        return 10
    if isinstance(exc, HarnessConnError):
        return 12
    if isinstance(exc, OSError):
        return 13
    return 14


def _inner(obj, cls):
    """the attribute of obj (whatever its private name) that is an instance of cls"""
    names = [n for k in type(obj).__mro__ for n in getattr(k, "__slots__", ())] + list(getattr(obj, "__dict__", {}))
    for name in names:
        for cand in (name, *(f"_{k.__name__}{name}" for k in type(obj).__mro__ if name.startswith("__"))):
            try:
                v = getattr(obj, cand)
            except AttributeError:
                continue
            if isinstance(v, cls):
                return v
    raise AttributeError(f"no {cls.__name__} inside {type(obj).__name__}")


PATH_NAMES = {0: "backend.wrap_stream_socket / create_datagram_endpoint", 1: "listener AcceptedSocketFactory.connect"}
PATHS = {1: (0, 1), 2: (0, 1), 3: (0,), 4: (0,)}      # the construction paths of the backend for each adapter kind


class Session:
    def __init__(self, loop, kind, ntasks, path=0):
        from easynetwork.lowlevel.api_async.backend._asyncio._flow_control import WriteFlowControl

        self.loop, self.kind, self.n, self.path = loop, kind, ntasks, path
        self.tasks = [None] * ntasks
        self.snaps = []
        self.returns = []       # (task, bytes of that task not yet taken by the kernel) at each normal return of a send
        self.sent = [0] * ntasks
        self.sock = None
        self.transport = None
        self.dead = False
        self.closer = None
        if kind == K_FLOW:
            self.stub = StubTransport()
            self.flow = WriteFlowControl(self.stub, loop)
            return
        from easynetwork.lowlevel.api_async.backend._asyncio.backend import AsyncIOBackend

        backend = AsyncIOBackend()
        # the adapters are obtained the way the backend obtains them (every construction path), on the scripted socket
        if kind in (K_SEND_ALL, K_SEND_ITER):
            self.sock = FakeSock(_socket.SOCK_STREAM)
            if path == 0:
                self.adapter = loop.run_until_complete(backend.wrap_stream_socket(self.sock))
            else:
                from easynetwork.lowlevel.api_async.backend._asyncio.stream.listener import AcceptedSocketFactory

                self.adapter = loop.run_until_complete(AcceptedSocketFactory().connect(backend, self.sock))
            self.transport = _inner(self.adapter, asyncio.BaseTransport)
            self.protocol = _inner(self.adapter, asyncio.BaseProtocol)
            self.settle()
            if kind == K_SEND_ALL:
                self.send = self.adapter.send_all
            else:
                self.send = lambda data: self.adapter.send_all_from_iterable([data])
        elif kind == K_DGRAM_EP:
            from easynetwork.lowlevel.api_async.backend._asyncio.datagram.endpoint import create_datagram_endpoint

            self.sock = FakeSock(_socket.SOCK_DGRAM)
            self.adapter = loop.run_until_complete(create_datagram_endpoint(sock=self.sock))
            self.transport = _inner(self.adapter, asyncio.BaseTransport)
            self.protocol = _inner(self.adapter, asyncio.BaseProtocol)
            self.settle()
            self.send = lambda data: self.adapter.sendto(data, "/peer")
        elif kind == K_DGRAM_LISTENER:
            # (AsyncIOBackend.create_udp_listeners binds real sockets, then does exactly this for each of them)
            from easynetwork.lowlevel.api_async.backend._asyncio.datagram.listener import (
                DatagramListenerProtocol,
                DatagramListenerSocketAdapter,
            )

            self.sock = FakeSock(_socket.SOCK_DGRAM)
            self.transport, self.protocol = loop.run_until_complete(
                loop.create_datagram_endpoint(lambda: DatagramListenerProtocol(loop=loop), sock=self.sock))
            self.adapter = DatagramListenerSocketAdapter(backend, self.transport, self.protocol)
            self.settle()
            self.send = lambda data: self.adapter.send_to(data, "/peer")
        else:
            raise ValueError(kind)

    # ---- configuration of the real transport (the model's tcfg)
    def config(self):
        if self.kind == K_FLOW:
            return []
        low, high = self.transport.get_write_buffer_limits()
        try:
            src = inspect.getsource(type(self.transport).writelines)
            wl = int("_maybe_pause_protocol" in src)
        except (AttributeError, OSError, TypeError):
            wl = 1
        if self.kind in (K_SEND_ALL, K_SEND_ITER) and not wl:
            # the F6 repair re-runs _maybe_pause_protocol() through set_write_buffer_limits(0) right after writelines():
            # same effect as a pausing writelines().  Read from the AST (fail closed), not from the text.
            try:
                wl = int(source_params()["stream_iter_rechecks"])
            except Exception:     # reported through params(); keep generating cases so that the failing input is found
                wl = 0
        if self.kind in (K_DGRAM_EP, K_DGRAM_LISTENER):
            wl = 1      # no writelines on datagram transports
        return [high, low, wl]

    def paused(self):
        if self.kind == K_FLOW:
            return int(self.flow.writing_paused())
        return int(self.protocol._writing_paused())

    def flow_control(self):
        if self.kind == K_FLOW:
            return self.flow
        for cls in type(self.protocol).__mro__:
            fc = getattr(self.protocol, f"_{cls.__name__}__write_flow", None)
            if fc is not None:
                return fc
        return None

    def deque_len(self):
        """length of the waiter deque, 0 when it cannot be observed (the attribute is private: see deque_observable())"""
        fc = self.flow_control()
        dq = getattr(fc, "_WriteFlowControl__drain_waiters", None)
        try:
            return len(dq)
        except TypeError:
            return 0

    def bufsize(self):
        # (a killed CPython datagram transport clears its buffer but not its byte counter: report the buffer)
        return 0 if self.kind == K_FLOW or self.dead else self.transport.get_write_buffer_size()

    def status(self, t):
        task = self.tasks[t]
        return 0 if task is None else _code(task)

    def snapshot(self):
        return [self.bufsize(), self.deque_len(), self.paused(), [self.status(t) for t in range(self.n)]]

    def tick(self):
        self.loop.call_soon(self.loop.stop)
        self.loop.run_forever()

    def settle(self):
        n = 0
        while self.loop._ready:
            self.tick()
            n += 1
            if n > 10000:
                raise detloop.DeadlockError("livelock while settling")

    async def _drain(self):
        await self.flow.drain()

    async def _send(self, t, n):
        self.sent[t] += n
        await self.send(bytes([0x41 + t]) * n)
        unsent = self.sent[t] - self.sock.wire.count(0x41 + t)
        self.returns.append((t, unsent, self.transport.get_write_buffer_size()))

    def act(self, a):
        code = a[0]
        if code == A_TICK:
            self.tick()
            self.snaps.append(self.snapshot())
        elif code == A_SETTLE:
            self.settle()
            self.snaps.append(self.snapshot())
        elif code == A_SEND:
            t = a[1]
            if self.tasks[t] is None or self.tasks[t].done():
                if self.kind == K_FLOW:
                    self.tasks[t] = self.loop.create_task(self._drain(), name=str(t))
                else:
                    n, k = a[2], a[3]
                    self.sock.accept[str(t)] = k
                    self.tasks[t] = self.loop.create_task(self._send(t, n), name=str(t))
        elif code == A_CANCEL:
            task = self.tasks[a[1]]
            if task is not None and not task.done():
                task.cancel()
        elif self.kind == K_FLOW:
            if code == A_PAUSE:
                self.flow.pause_writing()
            elif code == A_RESUME:
                self.flow.resume_writing()
            elif code == A_LOST:
                self.flow.connection_lost(HarnessConnError(104, "lost (harness)") if a[1] else None)
            elif code == A_CLOSE:
                self.stub.closing = bool(a[1])
        else:
            if code == A_READY:
                cb = self.loop.fake_writers.get(FD)
                if cb is not None and not self.dead and self.transport.get_write_buffer_size() > 0:
                    self.sock.budget = a[1]
                    cb[0](*cb[1])
                    self.sock.budget = 0
            elif code == A_LOST:
                if self.dead or self.protocol._get_close_waiter().done():
                    return
                self.dead = True
                if a[1] and self.kind in (K_SEND_ALL, K_SEND_ITER):
                    cb = self.loop.fake_readers.get(FD)
                    if cb is not None:
                        self.sock.recv_error = HarnessConnError(104, "reset (harness)")
                        cb[0](*cb[1])
                    else:
                        self.transport._force_close(HarnessConnError(104, "reset (harness)"))
                elif a[1]:
                    self.transport._force_close(HarnessConnError(104, "reset (harness)"))
                else:
                    self.transport.abort()
            elif code == A_CLOSE:
                self.transport.close()
            elif code == A_ACLOSE:
                if self.closer is None:
                    self.closer = self.loop.create_task(self.adapter.aclose(), name="closer")
            elif code == A_CANCEL_ACLOSE:
                if self.closer is not None and not self.closer.done():
                    self.closer.cancel()

    def finish(self):
        if self.closer is not None and not self.closer.done():
            self.closer.cancel()
        for task in self.tasks + [self.closer]:
            if task is not None and not task.done():
                task.cancel()
        if self.transport is not None:
            with contextlib.suppress(AttributeError):   # CPython: abort() after close() has completed its flush
                self.transport.abort()
        self.settle()
        for task in self.tasks + [self.closer]:
            if task is not None and task.done() and not task.cancelled():
                task.exception()


def execute(kind, ntasks, actions, epilogue=False, path=0):
    with running() as loop:
        s = Session(loop, kind, ntasks, path)
        try:
            for a in actions:
                s.act(a)
            extra = None
            if epilogue:
                # let everything that can still flush do so: afterwards nobody may be left suspended
                s.act([A_SETTLE])
                if kind == K_FLOW:
                    s.act([A_RESUME])
                    s.act([A_SETTLE])
                else:
                    for _ in range(64):
                        if s.transport.get_write_buffer_size() == 0 or s.dead:
                            break
                        s.act([A_READY, 1 << 20])
                        s.act([A_SETTLE])
                    s.act([A_SETTLE])
                extra = s.snapshot()
            if epilogue and s.sock is not None:
                extra = extra + [[s.sent[t] - s.sock.wire.count(0x41 + t) for t in range(ntasks)]]
            return s.snaps, list(s.returns), extra
        finally:
            s.finish()


_CFG = {}
_OBS = []


def deque_observable():
    """is the private waiter deque of WriteFlowControl there to be measured?  (a refactoring may rename or replace it: then
    its length is left out of the comparison, on both sides, instead of raising a false alarm)"""
    if not _OBS:
        from easynetwork.lowlevel.api_async.backend._asyncio._flow_control import WriteFlowControl

        with running() as loop:
            fc = WriteFlowControl(StubTransport(), loop)
            dq = getattr(fc, "_WriteFlowControl__drain_waiters", None)
            _OBS.append(int(hasattr(dq, "__len__") and hasattr(dq, "append")))
    return _OBS[0]



def config_of(kind, path=0):
    if (kind, path) not in _CFG:
        with running() as loop:
            s = Session(loop, kind, 1, path)
            try:
                _CFG[(kind, path)] = s.config()
            finally:
                s.finish()
    return _CFG[(kind, path)]


def _path(inp):
    return inp[5] if len(inp) > 5 else 0


def run_impl(inp):
    kind, _cfg, ntasks, actions = inp[0], inp[1], inp[2], inp[3]
    snaps, _returns, _ = execute(kind, ntasks, actions, path=_path(inp))
    return snaps


# ------------------------------------------------------------------------------------------------ oracle

_FOCUS = None     # set by extra(): restrict the failure search to the object kinds whose hypothesis broke


def _sent_before_close(actions, t):
    """every send of task t was started before the first close of the script (a send on a closed transport fails, rightly)"""
    closes = [i for i, a in enumerate(actions) if a[0] in (A_CLOSE, A_ACLOSE)]
    sends = [i for i, a in enumerate(actions) if a[0] == A_SEND and a[1] == t]
    return bool(sends) and (not closes or max(sends) < min(closes))


def oracle(inp):
    """The property on the implementation: (a) a send that returns normally has all its bytes taken by the kernel;
    (b,c,d) once the peer reads again / the connection is lost nobody stays suspended, a sender the script did not
    cancel is not cancelled, errors only after a loss; the waiter deque ends empty."""
    kind, _cfg, ntasks, actions = inp[0], inp[1], inp[2], inp[3]
    if _FOCUS is not None and (kind, _path(inp)) not in _FOCUS:
        return None
    snaps, returns, final = execute(kind, ntasks, actions, epilogue=True, path=_path(inp))
    for t, unsent, bufsize in returns:
        if unsent > 0:
            return (f"{KIND_NAMES[kind]}: send of task {t} returned while {unsent} of its bytes were still in user space "
                    f"(get_write_buffer_size() = {bufsize})")
    bufsize, dq, paused, statuses = final[:4]
    unsent_final = final[4] if len(final) > 4 else None
    cancelled = {a[1] for a in actions if a[0] == A_CANCEL}
    lost = any(a[0] in (A_LOST, A_CLOSE, A_ACLOSE) for a in actions)
    for t, st in enumerate(statuses):
        if st == 1:
            return f"{KIND_NAMES[kind]}: stranded: task {t} is still suspended after the buffer drained / the connection was lost"
        if st == 11 and t not in cancelled:
            return f"{KIND_NAMES[kind]}: task {t} cancelled although the script never cancelled it"
        if st in (12, 13) and not lost:
            return f"{KIND_NAMES[kind]}: task {t} failed with a connection error although the connection was never lost"
        if st in (12, 13) and unsent_final is not None and unsent_final[t] == 0 and not any(a[0] == A_LOST for a in actions) \
                and any(a[0] == A_READY for a in actions) and _sent_before_close(actions, t):
            return (f"{KIND_NAMES[kind]}: task {t} failed with a connection error although the kernel took every byte it sent "
                    f"(graceful close: the flush completed, the suspended sender had to be resumed)")
        if st == 14:
            return f"{KIND_NAMES[kind]}: task {t} raised an unexpected exception"
    if dq != 0 and deque_observable():
        return f"{KIND_NAMES[kind]}: waiter leak: {dq} futures left in the drain deque at quiescence"
    return None


SIGNATURES = {
    K_SEND_ITER: "writelines-send-returns-unflushed",
    K_DGRAM_EP: "datagram-endpoint-send-returns-unflushed",
    K_DGRAM_LISTENER: "datagram-listener-send-returns-unflushed",
}


def signature(inp, failure):
    kind = inp[0]
    if "returned while" in failure and kind in SIGNATURES:
        return SIGNATURES[kind]
    return failure.split(":", 2)[1].strip() if failure.count(":") >= 1 else failure


def shrink(inp):
    kind, cfg, ntasks, actions = inp[0], inp[1], inp[2], inp[3]
    for i in range(len(actions)):
        yield [kind, cfg, ntasks, actions[:i] + actions[i + 1:]] + list(inp[4:])


# ------------------------------------------------------------------------------------------------ params from the source

class _Outside(Exception):
    """the source is outside the fragment the `ast` reader understands: the behavioural probes decide alone"""


def _find_class(path, cls):
    import ast

    from common import runner

    full = os.path.join(runner.REPO, path)
    try:
        tree = ast.parse(open(full).read())
    except (OSError, SyntaxError) as exc:
        raise runner.TranslateError(f"{path}: {exc}")
    for node in tree.body:
        if isinstance(node, ast.ClassDef) and node.name == cls:
            return node
    raise _Outside(f"{path}: class {cls} not found")


def _method(cnode, name):
    import ast

    for sub in cnode.body:
        if isinstance(sub, (ast.FunctionDef, ast.AsyncFunctionDef)) and sub.name == name:
            return sub
    return None


def _self_attr_name(node):
    import ast

    if isinstance(node, ast.Attribute) and isinstance(node.value, ast.Name) and node.value.id == "self":
        return node.attr
    return None


def _transport_attrs(cnode):
    """the attribute(s) of the class that play the role of the asyncio transport: those on which write() / writelines() /
    sendto() is called, directly or through a local alias (roles, not names)"""
    import ast

    attrs = set()
    for fn in cnode.body:
        if not isinstance(fn, (ast.FunctionDef, ast.AsyncFunctionDef)):
            continue
        alias = {t.id: _self_attr_name(n.value) for n in ast.walk(fn) if isinstance(n, ast.Assign) and _self_attr_name(n.value)
                 for t in n.targets if isinstance(t, ast.Name)}
        for n in ast.walk(fn):
            if isinstance(n, ast.Call) and isinstance(n.func, ast.Attribute) and n.func.attr in ("write", "writelines", "sendto"):
                name = _self_attr_name(n.func.value) or (alias.get(n.func.value.id) if isinstance(n.func.value, ast.Name) else None)
                if name:
                    attrs.add(name)
    return attrs


def _transport_calls(cnode, fn, depth=1):
    """(method, args, keywords) of every call on the asyncio transport made by `fn`, in source order: on the attribute
    that plays the transport's role, through a local alias of it or the parameter it is initialised from, or -- one
    level -- inside a private helper of the same class called as `self.__helper(..)` (inlined at the call site)."""
    import ast

    tattrs = _transport_attrs(cnode)
    if len(tattrs) != 1:
        raise _Outside(f"{cnode.name}: cannot identify the transport attribute by its role")
    aliases = set()
    for node in ast.walk(fn):
        if isinstance(node, ast.Assign) and len(node.targets) == 1:
            tgt, val = node.targets[0], node.value
            if isinstance(tgt, ast.Name) and _self_attr_name(val) in tattrs:
                aliases.add(tgt.id)                       # local = self.<transport>
            elif _self_attr_name(tgt) in tattrs and isinstance(val, ast.Name):
                aliases.add(val.id)                       # self.<transport> = parameter
        elif isinstance(node, ast.AnnAssign) and _self_attr_name(node.target) in tattrs and isinstance(node.value, ast.Name):
            aliases.add(node.value.id)
    out = []
    calls = sorted((n for n in ast.walk(fn) if isinstance(n, ast.Call) and isinstance(n.func, ast.Attribute)),
                   key=lambda n: (n.lineno, n.col_offset))
    for node in calls:
        v = node.func.value
        if _self_attr_name(v) in tattrs or (isinstance(v, ast.Name) and v.id in aliases):
            out.append((node.func.attr, node.args, node.keywords))
        elif isinstance(v, ast.Name) and v.id == "self" and node.func.attr.startswith("_") and depth > 0:
            helper = _method(cnode, node.func.attr)
            if helper is not None and helper is not fn:
                out += _transport_calls(cnode, helper, depth - 1)
    return out


def _is_limits_zero(args, kws):
    import ast

    vals = list(args) + [k.value for k in kws if k.arg in ("high", None)]
    return len(vals) == 1 and len(kws) <= 1 and isinstance(vals[0], ast.Constant) and vals[0].value == 0


def ast_params():
    """(facts, reasons): the facts the `ast` reader can decide, and for the others why it cannot (outside its fragment)"""
    out, why = {}, {}

    def calls_of(cnode, name):
        fn = _method(cnode, name)
        if fn is None:
            raise _Outside(f"{cnode.name}.{name} not found")
        return _transport_calls(cnode, fn)

    def limits_in_init(cnode):
        found = False
        for m, a, k in calls_of(cnode, "__init__"):
            if m == "set_write_buffer_limits":
                if not _is_limits_zero(a, k):
                    raise _Outside(f"{cnode.name}.__init__: set_write_buffer_limits with other arguments")
                found = True
        if not found:
            # the limits may be set by the code that builds the adapter: only the live transports can tell
            raise _Outside(f"{cnode.name}.__init__ does not set the limits itself")
        return True

    def iter_rechecks(st):
        names = [m for m, _a, _k in calls_of(st, "send_all")]
        if names != ["write"]:
            raise _Outside(f"send_all: transport calls {names}")
        seq = calls_of(st, "send_all_from_iterable")
        names = [m for m, _a, _k in seq]
        if names == ["writelines"]:
            return False
        if names == ["writelines", "set_write_buffer_limits"] and _is_limits_zero(seq[1][1], seq[1][2]):
            return True
        raise _Outside(f"send_all_from_iterable: transport calls {names}")

    def decide(fact, fn):
        try:
            out[fact] = fn()
        except _Outside as exc:
            why[fact] = str(exc)

    decide("stream_limits_zero", lambda: limits_in_init(_find_class(_ST, "AsyncioTransportStreamSocketAdapter")))
    decide("stream_iter_rechecks", lambda: iter_rechecks(_find_class(_ST, "AsyncioTransportStreamSocketAdapter")))
    decide("dgram_endpoint_limits_zero", lambda: limits_in_init(_find_class(_DE, "DatagramEndpoint")))
    decide("dgram_listener_limits_zero", lambda: limits_in_init(_find_class(_DL, "DatagramListenerSocketAdapter")))
    return out, why


class _RecTransport:
    """records what an adapter does to its asyncio transport (behavioural extraction of the facts)"""

    def __init__(self, log, dgram=False):
        self.log = log
        self.sock = FakeSock(_socket.SOCK_DGRAM if dgram else _socket.SOCK_STREAM)

    def get_extra_info(self, name, default=None):
        return {"socket": self.sock}.get(name, default)

    def set_write_buffer_limits(self, high=None, low=None):
        self.log.append(("set_write_buffer_limits", high, low))

    def get_write_buffer_limits(self):
        return (0, 0)

    def get_write_buffer_size(self):
        return 0

    def write(self, data):
        self.log.append(("write", bytes(data)))

    def writelines(self, chunks):
        self.log.append(("writelines", [bytes(c) for c in chunks]))

    def sendto(self, data, addr=None):
        self.log.append(("sendto", bytes(data)))

    def is_closing(self):
        return False

    def can_write_eof(self):
        return True

    def close(self):
        pass

    def abort(self):
        pass


def behavioural_params():
    """the same facts decided by scripted probes on the real objects.  Fail closed on anything unexpected."""
    from common import runner

    from easynetwork.lowlevel.api_async.backend._asyncio.backend import AsyncIOBackend
    from easynetwork.lowlevel.api_async.backend._asyncio.datagram.endpoint import DatagramEndpoint
    from easynetwork.lowlevel.api_async.backend._asyncio.datagram.listener import DatagramListenerSocketAdapter
    from easynetwork.lowlevel.api_async.backend._asyncio.stream.socket import AsyncioTransportStreamSocketAdapter

    def bad(msg):
        raise runner.TranslateError("behavioural probe: " + msg)

    from easynetwork.lowlevel.api_async.backend._asyncio.datagram.endpoint import DatagramEndpointProtocol
    from easynetwork.lowlevel.api_async.backend._asyncio.datagram.listener import DatagramListenerProtocol
    from easynetwork.lowlevel.api_async.backend._asyncio.stream.socket import StreamReaderBufferedProtocol

    # the REAL protocol classes (an adapter may use any of their methods); only the drain is replaced by a recorder
    def recording(base, drain_name, **kw):
        async def drain(self):
            self.rec_log.append(("drain",))

        cls = type("Rec" + base.__name__, (base,), {drain_name: drain})

        def make(log, transport):
            proto = cls(loop=asyncio.get_event_loop(), **kw)
            proto.rec_log = log
            proto.connection_made(transport)
            return proto

        return make

    def limits_zero(log, who):
        hits = [e for e in log if e[0] == "set_write_buffer_limits"]
        if not hits:
            return False
        if any(e[1] != 0 for e in hits):
            bad(f"{who}.__init__ sets write buffer limits {hits}")
        return True

    out = {}
    with running() as loop:
        backend = AsyncIOBackend()
        log = []
        tr = _RecTransport(log)
        adapter = AsyncioTransportStreamSocketAdapter(backend, tr, recording(StreamReaderBufferedProtocol, "writer_drain")(log, tr))
        limits_zero(log, "stream adapter")
        del log[:]
        loop.run_until_complete(adapter.send_all(b"ab"))
        if [e[0] for e in log] != ["write", "drain"] or log[0][1] != b"ab":
            bad(f"send_all did {log}")
        del log[:]
        loop.run_until_complete(adapter.send_all_from_iterable([b"a", b"b"]))
        names = [e[0] for e in log]
        if names == ["writelines", "drain"]:
            out["stream_iter_rechecks"] = False
        elif names == ["writelines", "set_write_buffer_limits", "drain"] and log[1][1] == 0:
            out["stream_iter_rechecks"] = True
        else:
            bad(f"send_all_from_iterable did {log}")
        if b"".join(log[0][1]) != b"ab":
            bad(f"send_all_from_iterable wrote {log[0]}")
        adapter._AsyncioTransportStreamSocketAdapter__closing = True
        log = []
        tr = _RecTransport(log, True)
        rq, eq = asyncio.Queue(), asyncio.Queue()
        ep = DatagramEndpoint(tr, recording(DatagramEndpointProtocol, "_drain_helper", recv_queue=rq, exception_queue=eq)(log, tr),
                              recv_queue=rq, exception_queue=eq)
        limits_zero(log, "datagram endpoint")
        del log[:]
        loop.run_until_complete(ep.sendto(b"ab", "/peer"))
        if [e[0] for e in log] != ["sendto", "drain"]:
            bad(f"DatagramEndpoint.sendto did {log}")
        ep._DatagramEndpoint__transport.is_closing = lambda: True
        log = []
        tr = _RecTransport(log, True)
        li = DatagramListenerSocketAdapter(backend, tr, recording(DatagramListenerProtocol, "writer_drain")(log, tr))
        limits_zero(log, "datagram listener")
        del log[:]
        loop.run_until_complete(li.send_to(b"ab", "/peer"))
        if [e[0] for e in log] != ["sendto", "drain"]:
            bad(f"DatagramListenerSocketAdapter.send_to did {log}")
        li._DatagramListenerSocketAdapter__transport.is_closing = lambda: True
        # the interpreter: does writelines() of the real selector transport pause the protocol when data stays buffered?
        paused = []

        class P(asyncio.Protocol):
            def pause_writing(self):
                paused.append(1)

        sock = FakeSock(_socket.SOCK_STREAM)
        tr = loop._make_socket_transport(sock, P())
        loop.call_soon(loop.stop)
        loop.run_forever()
        tr.set_write_buffer_limits(0)
        tr.writelines([b"xyz"])          # the scripted kernel takes nothing
        if tr.get_write_buffer_size() != 3:
            bad("the real transport did not keep the bytes the kernel refused")
        out["interp_writelines_pauses"] = bool(paused)
        tr.abort()
        loop.call_soon(loop.stop)
        loop.run_forever()
    return out


_PARAMS = None
_LIMITS = {}


def limits_of(kind, path=0):
    """(high, low) of the LIVE transport of an adapter obtained through that construction path of the backend"""
    if (kind, path) not in _LIMITS:
        with running() as loop:
            s = Session(loop, kind, 1, path)
            try:
                low, high = s.transport.get_write_buffer_limits()
                _LIMITS[(kind, path)] = [high, low]
            finally:
                s.finish()
    return _LIMITS[(kind, path)]


def limits_after_vectored_send(path=0):
    """(high, low) of the live transport AFTER one send_all_from_iterable() that the kernel took entirely: the adapter may
    touch the limits on that path (the F6 repair does): they must still be (0, 0) for every later send"""
    key = ("after-iter", path)
    if key not in _LIMITS:
        with running() as loop:
            s = Session(loop, K_SEND_ITER, 1, path)
            try:
                s.act([A_SEND, 0, 3, 3])
                s.act([A_SETTLE])
                low, high = s.transport.get_write_buffer_limits()
                _LIMITS[key] = [high, low]
            finally:
                s.finish()
    return _LIMITS[key]


def _limits_facts():
    return {"stream_limits_zero": all(limits_of(K_SEND_ALL, p) == [0, 0] and limits_after_vectored_send(p) == [0, 0]
                                      for p in PATHS[K_SEND_ALL]),
            "dgram_endpoint_limits_zero": limits_of(K_DGRAM_EP) == [0, 0],
            "dgram_listener_limits_zero": limits_of(K_DGRAM_LISTENER) == [0, 0]}


def source_params():
    """fact -> value, plus PROVENANCE[fact] in {"ast+behavioural", "behavioural"}.  The probes always decide; when the
    `ast` reader understands the source it must agree (disagreement = fail closed)."""
    global _PARAMS, PROVENANCE
    from common import runner

    if _PARAMS is not None:
        return _PARAMS
    try:
        beh = behavioural_params()
        beh.update(_limits_facts())
    except runner.TranslateError:
        raise
    except Exception as exc:          # a probe that cannot even run proves nothing: fail closed, do not crash the check
        raise runner.TranslateError(f"behavioural probe crashed: {type(exc).__name__}: {exc}")
    static, why = ast_params()
    prov = {}
    for k, v in beh.items():
        if k in static:
            if static[k] != v:
                raise runner.TranslateError(f"{k}: the source reads {static[k]} but the probe on the real object says {v}")
            prov[k] = "ast+behavioural"
        else:
            prov[k] = "behavioural" + (" (interpreter fact)" if k.startswith("interp") else f" (ast reader: {why.get(k, 'not read')})")
    PROVENANCE = prov
    _PARAMS = beh
    return beh


PROVENANCE = {}


def params():
    p = source_params()
    doc = {
        "stream_limits_zero": "AsyncioTransportStreamSocketAdapter.__init__ calls transport.set_write_buffer_limits(0)",
        "stream_iter_rechecks": "send_all_from_iterable calls transport.set_write_buffer_limits(0) right after writelines()",
        "dgram_endpoint_limits_zero": "DatagramEndpoint.__init__ calls transport.set_write_buffer_limits(0)",
        "dgram_listener_limits_zero": "DatagramListenerSocketAdapter.__init__ calls transport.set_write_buffer_limits(0)",
        "interp_writelines_pauses": "this interpreter's _SelectorSocketTransport.writelines() calls _maybe_pause_protocol()",
    }
    return "".join(f"(* {doc[k]}   [{PROVENANCE[k].split(' (')[0]}] *)\nDefinition {k} : bool := {'true' if v else 'false'}.\n"
                   for k, v in p.items())


# ------------------------------------------------------------------------------------------------ hypothesis check

def extra(ctx):
    """H_pause on the real transports.  Where it fails and no known finding covers the kind, the theorem
    send_returns_only_when_flushed does not apply to the implementation: that is a broken tie."""
    global _FOCUS
    from common import runner

    known = {e["signature"] for e in runner.load_known(PROPERTY_ID)}
    report, broken = {}, set()
    for kind in (K_SEND_ALL, K_SEND_ITER, K_DGRAM_EP, K_DGRAM_LISTENER):
        for path in PATHS[kind]:
            high, low, wl = config_of(kind, path)
            ok = h_pause(kind, path)
            report[KIND_NAMES[kind] + (" via " + PATH_NAMES[path] if len(PATHS[kind]) > 1 else "")] = \
                dict(high=high, low=low, writelines_pauses=bool(wl), H_pause=ok)
            after = ""
            if kind in (K_SEND_ALL, K_SEND_ITER):
                ah, al = limits_after_vectored_send(path)
                report[KIND_NAMES[kind] + (" via " + PATH_NAMES[path] if len(PATHS[kind]) > 1 else "")]["after_vectored_send"] = \
                    dict(high=ah, low=al)
                after = f"; limits after one send_all_from_iterable on the same transport: (high={ah}, low={al})"
            if not ok and SIGNATURES.get(kind) not in known:
                broken.add((kind, path))
                ctx.problems.append(dict(kind="hypothesis", detail=f"H_pause does not hold for {KIND_NAMES[kind]} obtained through "
                                         f"{PATH_NAMES[path]}: write buffer limits (high={high}, low={low}), writelines pauses: {bool(wl)}" + after))
    # the configuration derived from the source (Gen/ParamsC20.v, used by the Props lemmas) must be the one observed
    try:
        sp = source_params()
        expect = {K_SEND_ALL: sp["stream_limits_zero"], K_SEND_ITER: sp["stream_limits_zero"],
                  K_DGRAM_EP: sp["dgram_endpoint_limits_zero"], K_DGRAM_LISTENER: sp["dgram_listener_limits_zero"]}
        for kind, zero in expect.items():
            allzero = all(config_of(kind, p)[:2] == [0, 0] for p in PATHS[kind])
            high, low, wl = config_of(kind)
            if allzero != zero:
                ctx.problems.append(dict(kind="translator", detail=f"source says limits-zero={zero} for {KIND_NAMES[kind]} "
                                         f"but the transport reports (high={high}, low={low})"))
        wl_src = sp["interp_writelines_pauses"] or sp["stream_iter_rechecks"]
        if bool(config_of(K_SEND_ITER)[2]) != wl_src:
            ctx.problems.append(dict(kind="translator", detail="source-derived 'writelines path pauses' disagrees with the driver"))
        report["source_params"] = sp
        report["source_params_provenance"] = dict(PROVENANCE)
    except Exception as exc:   # TranslateError is reported by the runner through params() already
        report["source_params"] = f"unavailable: {exc}"
        broken = set()          # the H_pause verdicts above rest on a fallback: search every kind for a failing input
    if broken:
        _FOCUS = broken
    return dict(h_pause=report)


# ------------------------------------------------------------------------------------------------ cases

def _enabled(kind, snap, lost_done, closed=False, aclose=0, no_send=None):
    bufsize, _dq, paused, statuses = snap
    out = []
    for t, st in enumerate(statuses):
        if st == 1:
            out.append([A_CANCEL, t])
        elif kind == K_FLOW:
            out.append([A_SEND, t])
        elif not (closed if no_send is None else no_send):
            # (see _no_more_sends)
            out += [[A_SEND, t, 3, 0], [A_SEND, t, 3, 2], [A_SEND, t, 3, 3]]
    if kind == K_FLOW:
        out.append([A_PAUSE])
        out.append([A_RESUME])
        if not lost_done:
            out += [[A_LOST, 0], [A_LOST, 1]]
        out += [[A_CLOSE, 1]]
    else:
        if bufsize > 0:
            out += [[A_READY, 1], [A_READY, 1 << 16]]
        if not lost_done:
            out += [[A_LOST, 0], [A_LOST, 1]]
        if not closed and not lost_done:
            out += [[A_CLOSE], [A_ACLOSE]]
        if aclose == 1:
            out.append([A_CANCEL_ACLOSE])
    return out


def _no_more_sends(kind, acts, snap=None):
    """Sends on a closing / dead transport that the generator leaves out, because CPython's transport (not /repo)
    misbehaves there:
    * after the adapter's aclose() (stream: write_eof() was called, write() raises RuntimeError);
    * after transport.close() once the flush is over: the closing selector transport has released its socket without
      counting a lost connection, write()/sendto() dereference None;   [while the flush is still in progress the send is
      an ordinary buffered write: generated, and the sender is failed when the flush ends];
    * after the transport died: fine for write() (data dropped, drain raises: generated for send_all); CPython 3.12.1
      writelines() has no `_conn_lost` check and an unconnected datagram transport does not drop the datagram: both end
      in AttributeError on the released loop / socket."""
    if kind == K_FLOW:
        return False
    if any(a[0] == A_ACLOSE for a in acts):
        return True
    lost = any(a[0] == A_LOST for a in acts)
    closed = any(a[0] == A_CLOSE for a in acts)
    if closed:
        # (writelines() on a closing CPython 3.12 transport calls its `_write_ready`, which close() has set to None)
        return kind == K_SEND_ITER or lost or snap is None or snap[0] == 0
    if lost:
        return kind != K_SEND_ALL
    return False


def _aclose_state(acts):
    """0 no aclose() task, 1 created and not cancelled by the script, 2 cancelled"""
    st = 0
    for a in acts:
        if a[0] == A_ACLOSE:
            st = max(st, 1)
        elif a[0] == A_CANCEL_ACLOSE and st == 1:
            st = 2
    return st


def _bfs(kind, ntasks, max_actions, budget, path=0):
    level = [([], [0, 0, 0, [0] * ntasks], 0)]
    count = 0
    while level:
        nxt = []
        for acts, snap, used in level:
            if used >= max_actions:
                continue
            lost_done = any(a[0] == A_LOST for a in acts)
            closed = _no_more_sends(kind, acts, snap)
            for a in _enabled(kind, snap, lost_done, any(x[0] in (A_CLOSE, A_ACLOSE) for x in acts), _aclose_state(acts), closed):
                for tail in ([[A_SETTLE]], [[A_TICK], [A_SETTLE]]):
                    acts2 = acts + [a] + tail
                    snaps, _, _ = execute(kind, ntasks, acts2, path=path)
                    count += 1
                    yield acts2
                    if count >= budget:
                        return
                    if tail == [[A_SETTLE]]:
                        nxt.append((acts2, snaps[-1], used + 1))
        level = nxt


def _random(kind, ntasks, rng, rounds, path=0):
    acts, snap, lost_done = [], [0, 0, 0, [0] * ntasks], False
    for _ in range(rounds):
        was_closed = any(x[0] in (A_CLOSE, A_ACLOSE) for x in acts)
        en = _enabled(kind, snap, lost_done, was_closed, _aclose_state(acts), _no_more_sends(kind, acts, snap))
        if kind != K_FLOW:
            en = [a if a[0] != A_SEND else [A_SEND, a[1], rng.choice([1, 2, 5, 9]), a[3]] for a in en]
            en = [a if a[0] != A_READY else [A_READY, rng.choice([1, 2, 3, 1 << 16])] for a in en]
        k = rng.choice([1, 1, 2, 3])
        batch, used = [], set()
        for a in rng.sample(en, len(en)):
            key = ("t", a[1]) if a[0] in (A_SEND, A_CANCEL) else ("g", min(a[0], A_ACLOSE))
            if key in used or len(batch) >= k:
                continue
            if a[0] in (A_LOST, A_CLOSE, A_ACLOSE) and rng.random() < 0.7:
                continue
            bad_with_send = (A_CLOSE, A_ACLOSE) if kind == K_SEND_ALL else (A_CLOSE, A_ACLOSE, A_LOST)
            if kind != K_FLOW and (
                    (a[0] in bad_with_send and any(b[0] == A_SEND for b in batch))
                    or (a[0] == A_SEND and any(b[0] in bad_with_send for b in batch))):
                continue        # see _no_more_sends
            if kind != K_FLOW and was_closed and ((a[0] == A_READY and any(b[0] == A_SEND for b in batch))
                                                  or (a[0] == A_SEND and any(b[0] == A_READY for b in batch))):
                continue        # the flush may end before the send starts: see _no_more_sends
            used.add(key)
            batch.append(a)
        if not batch:
            continue
        acts += batch + rng.choice([[[A_SETTLE]], [[A_TICK]], [[A_TICK], [A_SETTLE]], [[A_TICK], [A_TICK]]])
        lost_done = lost_done or any(a[0] == A_LOST for a in batch)
        snaps, _, _ = execute(kind, ntasks, acts, path=path)
        snap = snaps[-1]
    if not acts or acts[-1] != [A_SETTLE]:
        acts.append([A_SETTLE])
    return acts


def _case(kind, ntasks, acts, tag, path=0):
    snaps, _, _ = execute(kind, ntasks, acts, path=path)
    tags = [KIND_NAMES[kind], tag, f"tasks{ntasks}"]
    if path:
        tags.append("accepted-socket")
    for code, name in ((A_CANCEL, "cancel"), (A_LOST, "lost"), (A_CLOSE, "close"), (A_ACLOSE, "aclose"),
                       (A_CANCEL_ACLOSE, "aclose-cancelled")):
        if any(a[0] == code for a in acts):
            tags.append(name)
    parked = any(1 in s[3] and s[1] > 0 for s in snaps)
    if parked:
        tags.append("parked")
    return dict(input=[kind, config_of(kind, path), ntasks, acts, deque_observable(), path], tags=tags, nontrivial=parked)


def h_pause(kind, path=0):
    high, low, wl = config_of(kind, path)
    if kind in (K_SEND_ALL, K_SEND_ITER) and limits_after_vectored_send(path) != [0, 0]:
        return False        # the limits do not survive a vectored send on the same connection
    return high == 0 and low == 0 and (wl == 1 or kind != K_SEND_ITER)


WITNESS = {   # minimal scripts on which a send returns with its bytes still in user space when H_pause is false
    K_SEND_ITER: [[A_SEND, 0, 3, 2], [A_SETTLE]],
    K_DGRAM_EP: [[A_SEND, 0, 3, 0], [A_SETTLE]],
    K_DGRAM_LISTENER: [[A_SEND, 0, 3, 0], [A_SETTLE]],
}


def cases(tier, rng, escalate):
    thorough = tier == "thorough" or escalate
    kinds = [K_SEND_ALL, K_FLOW, K_SEND_ITER, K_DGRAM_EP, K_DGRAM_LISTENER]
    # Witnesses of the known findings F5/F6.  They are generated (not stored under corpus/) because a case embeds the
    # transport's water marks, which are exactly what the proposed fixes change; they disappear with the defect.
    for kind, acts in WITNESS.items():
        if not h_pause(kind):
            c = _case(kind, 1, acts, "finding-witness")
            c["known"] = SIGNATURES[kind]
            yield c
    for kind in kinds:
        for ntasks in (1, 2):
            depth = (5 if thorough else 4) if kind == K_FLOW else (4 if thorough else 3)
            for acts in _bfs(kind, ntasks, depth, 4000 if thorough else (900 if kind == K_FLOW else 450)):
                yield _case(kind, ntasks, acts, "exhaustive")
    # the other construction path of the stream adapter (sockets accepted by a listener)
    for kind in (K_SEND_ALL, K_SEND_ITER):
        for acts in _bfs(kind, 2, 4 if thorough else 3, 3000 if thorough else 250, path=1):
            yield _case(kind, 2, acts, "exhaustive", path=1)
    # several senders parked, some of them cancelled in the SAME loop iteration as (before / after) the event that wakes or
    # fails the waiters: a cancelled waiter still sits in the deque ahead of / behind live ones
    park = {K_FLOW: lambda t: [A_SEND, t]}
    for kind in kinds:
        mk = park.get(kind, lambda t: [A_SEND, t, 3, 0])
        pre = ([[A_PAUSE]] if kind == K_FLOW else []) + [mk(0), mk(1), mk(2), [A_SETTLE]]
        events = [[A_RESUME], [A_LOST, 0], [A_LOST, 1]] if kind == K_FLOW else [[A_READY, 1 << 16], [A_LOST, 0], [A_LOST, 1]]
        for ev in events:
            for victims in ([0], [1], [2], [0, 1], [0, 2], [1, 2]):
                cancels = [[A_CANCEL, v] for v in victims]
                for batch in (cancels + [ev], [ev] + cancels):
                    for tail in ([[A_SETTLE]], [[A_TICK], [A_SETTLE]]):
                        for path in PATHS.get(kind, (0,)):
                            yield _case(kind, 3, pre + batch + tail, "scenario", path=path)
    # close paths: a parked sender, aclose() in a task, that task cancelled, then the connection dies / is flushed
    S, T = [A_SETTLE], [A_TICK]
    for kind in (K_SEND_ALL, K_SEND_ITER, K_DGRAM_EP, K_DGRAM_LISTENER):
        for closing in ([[A_ACLOSE], S, [A_CANCEL_ACLOSE], S], [[A_ACLOSE], [A_CANCEL_ACLOSE], S], [[A_ACLOSE], T, [A_CANCEL_ACLOSE], T],
                        [[A_ACLOSE], S], [[A_CLOSE], S]):
            for ending in ([[A_LOST, 0], S], [[A_LOST, 1], S], [[A_READY, 1 << 16], S], [[A_READY, 1], T, [A_LOST, 1], S]):
                for senders in ([[A_SEND, 0, 3, 0], S], [[A_SEND, 0, 3, 0], [A_SEND, 1, 2, 0], S]):
                    yield _case(kind, 2, senders + closing + ending, "scenario")
    # a send issued while a closed transport is still flushing, then the flush ends / the transport dies
    for kind in (K_SEND_ALL, K_DGRAM_EP, K_DGRAM_LISTENER):
        for late in ([[A_SEND, 1, 2, 0], S], [[A_SEND, 1, 2, 0], T]):
            for ending in ([[A_READY, 1 << 16], S], [[A_READY, 1], S, [A_READY, 1 << 16], S], [[A_LOST, 1], S], [[A_CANCEL, 1], S, [A_READY, 1 << 16], S]):
                yield _case(kind, 2, [[A_SEND, 0, 3, 0], S, [A_CLOSE], S] + late + ending, "scenario")
    for _ in range(8000 if thorough else 1200):
        kind = rng.choice(kinds)
        path = rng.choice(PATHS.get(kind, (0,)))
        ntasks = rng.choice([1, 2, 3, 3])
        acts = _random(kind, ntasks, rng, rng.randrange(3, 12), path=path)
        yield _case(kind, ntasks, acts, "random", path=path)
