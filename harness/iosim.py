"""Scripted I/O environment shared by the C04 and C11 drivers (owned by those two properties).

* virtual clock in integer ticks (1 tick = 2**-10 s, so every float the code computes is exact), installed over
  ``time.perf_counter`` for the duration of one case;
* ``ScriptedSelector``: a selectors.BaseSelector look-alike whose select() answers come from a script
  ``[(ready, elapsed_ticks), ...]`` (exhausted script: ready after 0 ticks) and which records every wait requested;
* ``ScriptedSocket``: a real ``socket.socket`` subclass (one end of a socketpair) whose send()/sendmsg()/recv()/
  recv_into() results come from a script; accepted bytes are forwarded to the real peer, so the wire is what the
  peer socket actually reads;
* a watchdog: the scripted socket aborts the call under test with ``SpinDetected`` after ``bound`` calls, and
  ``alarm()`` aborts a pure-Python hang with ``HangDetected`` (SIGALRM) instead of hanging the check.
"""
from __future__ import annotations

import contextlib
import math
import selectors
import signal
import socket
import time

TICK = 1.0 / 1024.0


def secs(ticks):
    """ticks (int) or None (= math.inf) -> float seconds"""
    return math.inf if ticks is None else ticks * TICK


def ticks(x):
    """float seconds -> int ticks, None for inf, ('frac', repr) if not a whole number of ticks"""
    if x is None:
        return "none"
    if x == math.inf:
        return None
    t = x / TICK
    if t != int(t):
        return ("frac", repr(x))
    return int(t)


def tmo_sx(t):
    """tmo value (int ticks | None) -> sx  (L [] = inf, L [A t])"""
    return [] if t is None else [t]


def sx_tmo(v):
    return None if v == [] else v[0]


class SpinDetected(BaseException):
    pass


class HangDetected(BaseException):
    pass


class Clock:
    def __init__(self):
        self.now = 4096.0          # seconds; dyadic

    def advance(self, t):
        self.now += t * TICK

    def __call__(self):
        return self.now

    @contextlib.contextmanager
    def installed(self):
        saved = time.perf_counter
        time.perf_counter = self
        try:
            yield self
        finally:
            time.perf_counter = saved


@contextlib.contextmanager
def alarm(seconds=120.0):
    """Abort a hang of the code under test (main thread only)."""
    def handler(signum, frame):
        raise HangDetected()
    old = signal.signal(signal.SIGALRM, handler)
    signal.setitimer(signal.ITIMER_REAL, seconds)
    try:
        yield
    finally:
        signal.setitimer(signal.ITIMER_REAL, 0)
        signal.signal(signal.SIGALRM, old)


class SelectorScript:
    """Shared by all selectors created during one case."""

    def __init__(self, clock, answers):
        self.clock = clock
        self.answers = list(answers)     # (ready, elapsed)
        self.waits = []                  # [write?, tmo]
        self.max_waits = 10000

    def factory(self):
        return ScriptedSelector(self)


class ScriptedSelector:
    def __init__(self, script):
        self.script = script
        self.registered = None

    def __enter__(self):
        return self

    def __exit__(self, *a):
        self.close()

    def close(self):
        self.registered = None

    def register(self, fileobj, events, data=None):
        self.registered = (fileobj, events)
        return selectors.SelectorKey(fileobj, fileobj if isinstance(fileobj, int) else fileobj.fileno(), events, data)

    def select(self, timeout=None):
        s = self.script
        if len(s.waits) > s.max_waits:
            raise SpinDetected()
        ev = self.registered[1] if self.registered else 0
        if timeout is None:
            req = []                      # select(): wait forever
        elif timeout == math.inf:
            req = [-8]                    # a real selector rejects an infinite float
        else:
            t = ticks(timeout)
            req = [-7] if isinstance(t, tuple) else [t]
        s.waits.append([1 if ev == selectors.EVENT_WRITE else 0, req])
        ready, el = s.answers.pop(0) if s.answers else (1, 0)
        s.clock.advance(el)
        if ready:
            fileobj, events = self.registered
            return [(selectors.SelectorKey(fileobj, fileobj if isinstance(fileobj, int) else fileobj.fileno(), events, None),
                     events)]
        return []


class SockScript:
    """Answers of the scripted socket.  send answers: (kind, n, cost)
         kind 0 accept min(n, available) | 1 BlockingIOError | 2 InterruptedError | 5 ConnectionResetError
       recv answers: (kind, data, cost)   kind 0 deliver data[:bufsize] (b"" = EOF) | 1 BlockingIOError | 2 InterruptedError
                                          | 5 ConnectionResetError ; exhausted recv script = EOF"""

    def __init__(self, clock, send=(), recv=(), bound=1000):
        self.clock = clock
        self.send = list(send)
        self.recv = list(recv)
        self.calls = 0
        self.bound = bound
        self.accepted = bytearray()

    def tick(self, cost):
        self.calls += 1
        if self.calls > self.bound:
            raise SpinDetected()
        self.clock.advance(cost)


class ScriptedSocket(socket.socket):
    """One end of a socketpair; behaviour of send/sendmsg/recv/recv_into is scripted, bytes really travel."""
    script: SockScript

    def _send_answer(self, avail):
        sc = self.script
        if not sc.send:
            sc.tick(0)
            return avail
        kind, n, cost = sc.send.pop(0)
        sc.tick(cost)
        if kind == 0:
            return min(n, avail)
        if kind == 1:
            raise BlockingIOError(11, "scripted EAGAIN")
        if kind == 2:
            raise InterruptedError(4, "scripted EINTR")
        raise ConnectionResetError(104, "scripted ECONNRESET")

    def send(self, data, *flags):
        with memoryview(data) as mv, mv.cast("B") as mv:
            k = self._send_answer(len(mv))
            if k:
                self.script.accepted += mv[:k]
                super().sendall(mv[:k])
            return k

    def sendmsg(self, buffers, *a):
        flat = b"".join(bytes(memoryview(b).cast("B")) if memoryview(b).itemsize != 1 else bytes(b) for b in buffers)
        k = self._send_answer(len(flat))
        if k:
            self.script.accepted += flat[:k]
            super().sendall(flat[:k])
        return k

    def _recv_answer(self, bufsize):
        sc = self.script
        if not sc.recv:
            sc.tick(0)
            if getattr(sc, "dgram", False):
                raise BlockingIOError(11, "scripted EAGAIN (no datagram will arrive)")
            return b""
        kind, data, cost = sc.recv[0]
        if kind == 0 and len(data) > bufsize and not getattr(sc, "dgram", False):
            # deliver the first bufsize bytes, keep the rest for the next call (like a kernel buffer)
            sc.recv[0] = (0, data[bufsize:], 0)
            sc.tick(cost)
            return data[:bufsize]
        sc.recv.pop(0)
        sc.tick(cost)
        if kind == 0:
            return data
        if kind == 1:
            raise BlockingIOError(11, "scripted EAGAIN")
        if kind == 2:
            raise InterruptedError(4, "scripted EINTR")
        raise ConnectionResetError(104, "scripted ECONNRESET")

    def recv(self, bufsize, *flags):
        return self._recv_answer(bufsize)

    def recv_into(self, buffer, nbytes=0, *flags):
        with memoryview(buffer) as mv, mv.cast("B") as mv:
            data = self._recv_answer(nbytes or len(mv))
            mv[:len(data)] = data
            return len(data)


class NoSendmsgSocket(ScriptedSocket):
    """hasattr(sock, 'sendmsg') is False (platforms without sendmsg)."""
    @property
    def sendmsg(self):
        raise AttributeError("sendmsg")


class FakeSSLSocket:
    """What SSLStreamTransport needs from ssl.SSLSocket; send() is scripted (SSL exceptions)."""

    def __init__(self, sock, script, context):
        self._sock, self.script, self.context = sock, script, context
        self.family, self.type, self.proto = sock.family, sock.type, sock.proto

    def setblocking(self, flag):
        self._sock.setblocking(flag)

    def do_handshake(self):
        return None

    def fileno(self):
        return self._sock.fileno()

    def getsockname(self):
        return self._sock.getsockname()

    def getpeername(self):
        return self._sock.getpeername()

    def getpeercert(self, binary_form=False):
        return None

    def cipher(self):
        return None

    def compression(self):
        return None

    def version(self):
        return None

    def unwrap(self):
        return self._sock

    def shutdown(self, how):
        self._sock.shutdown(how)

    def close(self):
        self._sock.close()

    def send(self, data, *flags):
        import ssl
        sc = self.script
        with memoryview(data) as mv, mv.cast("B") as mv:
            if not sc.send:
                sc.tick(0)
                k = len(mv)
            else:
                kind, n, cost = sc.send.pop(0)
                sc.tick(cost)
                if kind in (1, 2):
                    raise ssl.SSLWantWriteError(ssl.SSL_ERROR_WANT_WRITE, "scripted")
                if kind == 3:
                    raise ssl.SSLWantReadError(ssl.SSL_ERROR_WANT_READ, "scripted")
                if kind == 4:
                    raise ssl.SSLSyscallError(ssl.SSL_ERROR_SYSCALL, "scripted")
                if kind == 5:
                    raise ssl.SSLZeroReturnError(ssl.SSL_ERROR_ZERO_RETURN, "scripted")
                k = min(n, len(mv))
            if k:
                sc.accepted += mv[:k]
                self._sock.sendall(mv[:k])
            return k

    def _recv_answer(self, bufsize):
        import ssl
        sc = self.script
        if not sc.recv:
            sc.tick(0)
            return b""
        kind, data, cost = sc.recv[0]
        if kind == 0 and len(data) > bufsize:
            sc.recv[0] = (0, data[bufsize:], 0)
            sc.tick(cost)
            return data[:bufsize]
        sc.recv.pop(0)
        sc.tick(cost)
        if kind == 0:
            return data
        if kind in (1, 2):
            raise ssl.SSLWantReadError(ssl.SSL_ERROR_WANT_READ, "scripted")
        if kind == 3:
            raise ssl.SSLWantWriteError(ssl.SSL_ERROR_WANT_WRITE, "scripted")
        raise ConnectionResetError(104, "scripted ECONNRESET")

    def recv(self, bufsize, *flags):
        return self._recv_answer(bufsize)

    def recv_into(self, buffer, nbytes=0, *flags):
        with memoryview(buffer) as mv, mv.cast("B") as mv:
            data = self._recv_answer(nbytes or len(mv))
            mv[:len(data)] = data
            return len(data)


class FakeSSLContext:
    def __init__(self, script):
        self.script = script

    def wrap_socket(self, sock, **kw):
        return FakeSSLSocket(sock, self.script, self)


def make_pair(cls, script, kind=socket.SOCK_STREAM, family=None):
    """-> (scripted socket of class cls, plain peer socket)"""
    if family is None:
        a, b = socket.socketpair(socket.AF_UNIX, kind)
    else:
        a, b = socket.socketpair(family, kind)
    s = cls(a.family, a.type, a.proto, fileno=a.detach())
    if script is not None:
        s.script = script
    b.setblocking(False)
    return s, b


def drain(peer):
    out = bytearray()
    while True:
        try:
            d = peer.recv(65536)
        except (BlockingIOError, InterruptedError):
            break
        except OSError:
            break
        if not d:
            break
        out += d
    return bytes(out)


def exc_code(exc):
    """Canonical small code of an exception raised by the code under test."""
    from easynetwork.exceptions import ClientClosedError
    import errno
    if isinstance(exc, SpinDetected):
        return 9
    if isinstance(exc, HangDetected):
        return 8
    if isinstance(exc, TimeoutError):
        return 1
    if isinstance(exc, ClientClosedError):
        return 6
    if isinstance(exc, OSError) and exc.errno == errno.ECONNABORTED:
        return 5
    if isinstance(exc, ConnectionError):
        return 2
    if isinstance(exc, ValueError):
        return 3
    if isinstance(exc, RuntimeError):
        return 4
    if isinstance(exc, OSError):
        return 20
    return 30


def budget_failure(T, waits, lockwaits, selans, lockans, outcome_code, what, dt=None):
    """Upper half: waits requested never exceed what is left of T; a zero timeout never waits.
    Lower half (when the virtual duration dt of the call is given): TimeoutError only if the call really took >= T,
    provided every "not ready" / "not acquired" answer came after the full requested wait (no early timeout, no wait
    charged twice)."""
    if T is None:
        if outcome_code == 1:
            return f"{what}: TimeoutError with an infinite timeout"
        return None
    if T < 0:
        return None
    reqs = [w[1] for w in waits] + list(lockwaits)
    if T == 0 and reqs:
        return f"{what}: a zero timeout waited ({reqs})"
    spent = 0
    # replay in order: lock wait first, then selector waits, each bounded by the remaining budget
    seq = [(r, lockans[1] if lockans not in (None, "none") else 0) for r in lockwaits]
    seq += [(w[1], (selans[i][1] if i < len(selans) else 0)) for i, w in enumerate(waits)]
    for req, el in seq:
        if req == [] or req[0] < 0:
            return f"{what}: unbounded or malformed wait {req} with finite timeout {T}"
        if spent >= T:
            return f"{what}: waits again although {spent} >= T={T} ticks were already spent waiting"
        if req[0] > T - spent:
            return f"{what}: requested a wait of {req[0]} ticks with only {T - spent} left of T={T}"
        spent += el
    if outcome_code == 1 and dt is not None and T > 0 and dt < T:
        full = all((i >= len(selans)) or selans[i][0] == 1 or selans[i][1] >= w[1][0] for i, w in enumerate(waits) if w[1])
        if lockwaits and lockans not in (None, "none") and not lockans[0]:
            full = full and lockans[1] >= lockwaits[0][0]
        if full:
            return f"{what}: TimeoutError after only {dt} of T={T} ticks although no wait was cut short (early timeout)"
    return None


def event_failure(waits, blocks, what):
    """Which readiness event each would-block waits for: every selector wait registers the event asked for by the
    would-block answer that caused it (1 = writable, 0 = readable).  A would-block that meets an exhausted timeout causes no
    wait, so the waits must be a subsequence, in order, of the would-block answers."""
    events = [w[0] for w in waits]
    j = 0
    for i, ev in enumerate(events):
        while j < len(blocks) and blocks[j] != ev:
            j += 1
        if j >= len(blocks):
            name = {1: "WRITABILITY", 0: "READABILITY"}
            return (f"{what}: wait #{i} polls the socket for {name[ev]} although no remaining would-block asked for it "
                    f"(would-blocks: {['write' if b else 'read' for b in blocks]}): the call cannot make progress when the "
                    "awaited event never comes")
        j += 1
    return None
