"""C12 — concurrent senders never interleave packets.

The driver runs the REAL objects of /repo (FairLock, ResourceGuard, AsyncTCPNetworkClient, AsyncStreamEndpoint,
_ConnectedClientAPI + ConnectedStreamClient, AsyncTLSStreamTransport, blocking TCP/UDP clients) on the deterministic loop
with an in-memory transport whose send suspends the calling task on a harness-controlled future after every piece.
The script (which task is created / whose suspension ends / who is cancelled / when the loop runs) is the case; the
same script is replayed by coq/Run/C12.v on the model and every snapshot (wire length, state of each task) and the
final wire must be equal.
"""
from __future__ import annotations

import asyncio
import contextlib
import itertools
import socket as _socket

from common import detloop

PROPERTY_ID = "C12"
RUN_MODULE = "Run.C12"
PROPS_FILE = "Props/C12.v"
ALLOWED_AXIOMS = []
ANCHORS = [
    ("src/easynetwork/lowlevel/api_async/backend/_common/fair_lock.py", "FairLock.acquire"),
    ("src/easynetwork/lowlevel/api_async/backend/_common/fair_lock.py", "FairLock.release"),
    ("src/easynetwork/lowlevel/api_async/backend/_common/fair_lock.py", "FairLock._wake_up_first"),
    ("src/easynetwork/lowlevel/api_async/backend/_common/fair_lock.py", "FairLock.__aexit__"),
    ("src/easynetwork/lowlevel/_utils.py", "ResourceGuard.__enter__"),
    ("src/easynetwork/lowlevel/_utils.py", "ResourceGuard.__exit__"),
    ("src/easynetwork/lowlevel/_utils.py", "lock_with_timeout"),
    ("src/easynetwork/clients/async_tcp.py", "AsyncTCPNetworkClient.send_packet"),
    ("src/easynetwork/clients/async_tcp.py", "AsyncTCPNetworkClient.__init__"),
    ("src/easynetwork/clients/tcp.py", "TCPNetworkClient.send_packet"),
    ("src/easynetwork/clients/udp.py", "UDPNetworkClient.send_packet"),
    ("src/easynetwork/servers/async_tcp.py", "_ConnectedClientAPI.send_packet"),
    ("src/easynetwork/servers/async_tcp.py", "_ConnectedClientAPI.__init__"),
    ("src/easynetwork/lowlevel/api_async/endpoints/stream.py", "AsyncStreamEndpoint.send_packet"),
    ("src/easynetwork/lowlevel/api_async/endpoints/stream.py", "_DataSenderImpl.send"),
    ("src/easynetwork/lowlevel/api_async/servers/stream.py", "ConnectedStreamClient.send_packet"),
    ("src/easynetwork/lowlevel/api_async/transports/tls.py", "AsyncTLSStreamTransport.send_all"),
    ("src/easynetwork/lowlevel/api_async/transports/tls.py", "AsyncTLSStreamTransport.send_all_from_iterable"),
    ("src/easynetwork/lowlevel/api_async/transports/tls.py", "AsyncTLSStreamTransport._retry_ssl_method"),
    ("src/easynetwork/lowlevel/api_async/transports/tls.py", "AsyncTLSStreamTransport.__flush_data_to_send"),
    ("src/easynetwork/lowlevel/api_async/transports/tls.py", "AsyncTLSStreamTransport.__write_all_to_ssl_object"),
    ("src/easynetwork/lowlevel/api_async/transports/tls.py", "AsyncTLSStreamTransport.__post_init__"),
    ("src/easynetwork/lowlevel/api_sync/transports/socket.py", "SocketStreamTransport.send_all_from_iterable"),
    ("src/easynetwork/lowlevel/api_sync/transports/socket.py", "SocketDatagramTransport.send_noblock"),
    ("src/easynetwork/lowlevel/api_sync/endpoints/stream.py", "StreamEndpoint.send_packet"),
    ("src/easynetwork/lowlevel/api_sync/endpoints/datagram.py", "DatagramEndpoint.send_packet"),
    ("src/easynetwork/lowlevel/api_async/backend/_asyncio/backend.py", "AsyncIOBackend.create_fair_lock"),
    ("src/easynetwork/lowlevel/api_async/backend/abc.py", "AsyncBackend.create_fair_lock"),
]
RULE = ("case = (kind of real object, one program (list of packets cut into pieces) per task, script).  Script actions: "
        "create task / end a transport suspension normally / with a connection error / task.cancel() / run one loop "
        "iteration / run until idle.  Scripts are enumerated depth-first, EXHAUSTIVELY up to a bound on the number of "
        "actions, choosing at every point among the actions enabled in the implementation's current state (one action "
        "then run-until-idle; and batches of two actions followed by one iteration), for 2 and 3 tasks; random longer "
        "scripts with batches of up to 3 actions on top.  Non-trivial = at some snapshot one task is suspended inside "
        "the transport while another one is pending (contention).  TLS kinds: programs of packets cut into 1-3 chunks "
        "(send_all / send_all_from_iterable) on the real AsyncTLSStreamTransport with a real stdlib TLS peer, observable = "
        "plaintext decrypted by the peer per underlying send.  Thread kinds: real threads on TCPNetworkClient / "
        "UDPNetworkClient, every socket.send parked until the script releases it (scripted partial writes), some senders with a "
        "short lock timeout; compared on the packets the peer finally received.")
TRUSTED = ["hand-written models coq/Conc/FairLock.v, Guard.v, SendSerial.v; the asyncio ready-queue discipline encoded in "
           "coq/Run/C12.v (FIFO, one wake-up per task, cancellation wins over completion)",
           "asyncio.Lock (CPython) is not modelled separately: the clients on the asyncio backend use it and are compared "
           "against the FairLock model at every snapshot"]
ASSUMPTIONS = ["a transport send is a sequence of atomic partial writes, each followed by a suspension of the sender",
               "tasks call send_packet sequentially (one call in flight per task)"]

KIND_RAW, KIND_CLIENT, KIND_CLIENT_FAIR, KIND_ENDPOINT, KIND_SERVER, KIND_SERVER_FAIR, KIND_TLS, KIND_TLS_FAIR, \
    KIND_THREAD_TCP, KIND_THREAD_UDP = range(10)
A_START, A_OK, A_FAIL, A_CANCEL, A_TICK, A_SETTLE = range(6)
# Every object whose lock is modelled (the real FairLock: Conc/FairLock.v; CPython's asyncio.Lock handed out by the asyncio
# backend: Conc/AsyncioLock.v) is compared with the model after every single loop iteration.  Only the TLS transport over
# asyncio.Lock (kind 6; Conc/TlsSend.v is written over FairLock) is still compared at quiescence.
TICK_KINDS = (0, 1, 2, 3, 4, 5, 7)

_SOCK = None


def _dummy_sock():
    global _SOCK
    if _SOCK is None:
        _SOCK = _socket.socket(_socket.AF_INET, _socket.SOCK_STREAM)
    return _SOCK


def _imports():
    from easynetwork.lowlevel.api_async.backend._asyncio.backend import AsyncIOBackend
    from easynetwork.lowlevel.api_async.backend._common.fair_lock import FairLock
    from easynetwork.lowlevel.api_async.transports.abc import AsyncStreamTransport
    from easynetwork.lowlevel.socket import INETSocketAttribute
    from easynetwork.protocol import StreamProtocol
    from easynetwork.serializers.abc import AbstractIncrementalPacketSerializer

    return AsyncIOBackend, FairLock, AsyncStreamTransport, INETSocketAttribute, StreamProtocol, AbstractIncrementalPacketSerializer


_CLS = {}


def _classes():
    if _CLS:
        return _CLS
    AsyncIOBackend, FairLock, AsyncStreamTransport, INETSocketAttribute, StreamProtocol, AbstractSer = _imports()

    class PieceSerializer(AbstractSer):
        """packet = tuple of pieces; every piece is one chunk handed to the transport"""

        def incremental_serialize(self, packet):
            yield from packet

        def incremental_deserialize(self):
            data = yield
            return data, b""

    class MemTransport(AsyncStreamTransport):
        """append a piece to the wire, then suspend the sender until the harness ends the suspension"""

        def __init__(self, backend):
            super().__init__()
            self._backend = backend
            self.wire = bytearray()
            self.gates = {}
            self.closing = False
            self.calls = []

        async def _gate(self):
            name = asyncio.current_task().get_name()
            fut = asyncio.get_running_loop().create_future()
            self.gates[name] = fut
            try:
                await fut
            finally:
                if self.gates.get(name) is fut:
                    del self.gates[name]

        async def send_all(self, data):
            self.wire += bytes(data)
            await self._gate()

        async def send_all_from_iterable(self, iterable_of_data):
            for chunk in iterable_of_data:
                self.wire += bytes(chunk)
                await self._gate()

        async def send_eof(self):
            pass

        async def recv(self, bufsize):
            await asyncio.get_running_loop().create_future()

        async def recv_into(self, buffer):
            await asyncio.get_running_loop().create_future()

        async def aclose(self):
            self.closing = True

        def is_closing(self):
            return self.closing

        def backend(self):
            return self._backend

        @property
        def extra_attributes(self):
            sock = _dummy_sock()
            return {
                INETSocketAttribute.socket: lambda: sock,
                INETSocketAttribute.family: lambda: _socket.AF_INET,
                INETSocketAttribute.sockname: lambda: ("127.0.0.1", 11111),
                INETSocketAttribute.peername: lambda: ("127.0.0.1", 22222),
            }

    class TlsLower(AsyncStreamTransport):
        """the transport under AsyncTLSStreamTransport: every send_all is fed to an independent stdlib SSL object (the
        peer) at once, the plaintext it decrypts is recorded per call; once `gated`, the caller is then suspended"""

        def __init__(self, backend, peer):
            super().__init__()
            self._backend = backend
            self.peer = peer
            self.inbox = bytearray()
            self.gates = {}
            self.gated = False
            self.closing = False
            self.calls = []          # plaintext carried by each gated send_all call
            self.wire = self.calls   # (snapshot uses len(wire))
            self.inflight = 0
            self.overlap = False     # two transport.send_all calls in flight at once
            self.unlocked = []       # BIO reads / transport sends made without holding the transport send lock
            self.send_lock = None

        async def _gate(self):
            name = asyncio.current_task().get_name()
            fut = asyncio.get_running_loop().create_future()
            self.gates[name] = fut
            try:
                await fut
            finally:
                if self.gates.get(name) is fut:
                    del self.gates[name]

        async def send_all(self, data):
            data = bytes(data)
            if not self.gated:           # handshake
                self.peer.feed(data)
                self.inbox += self.peer.pump()
                return
            # piecewise: the first half reaches the peer now, the rest when the call ends (normally or not); the plaintext
            # the peer's TLS layer decodes for this call is known then.  Two calls in flight at once really corrupt the
            # ciphertext stream: the peer's TLS layer is the judge.
            if self.send_lock is not None and self.send_lock.holder is not asyncio.current_task():
                self.unlocked.append("transport.send_all was called outside the transport send lock")
            idx = len(self.calls)
            self.calls.append(b"")
            before = len(self.peer.plain_in)
            half = len(data) // 2
            self.peer.feed(data[:half])
            self.peer.pump()
            self.inflight += 1
            if self.inflight > 1:
                self.overlap = True
            try:
                await self._gate()
            finally:
                self.inflight -= 1
                self.peer.feed(data[half:])
                self.peer.pump()
                self.calls[idx] = bytes(self.peer.plain_in[before:])

        async def send_eof(self):
            pass

        async def recv_into(self, buffer):
            if not self.inbox:
                await asyncio.get_running_loop().create_future()
            with memoryview(buffer) as view:
                n = min(len(view), len(self.inbox))
                view[:n] = self.inbox[:n]
            del self.inbox[:n]
            return n

        async def recv(self, bufsize):
            buf = bytearray(bufsize)
            n = await self.recv_into(buf)
            return bytes(buf[:n])

        async def aclose(self):
            self.closing = True

        def is_closing(self):
            return self.closing

        def backend(self):
            return self._backend

        @property
        def extra_attributes(self):
            return {}

    class MemBackend(AsyncIOBackend):
        fair = False
        transport = None
        record_locks = None

        async def create_tcp_connection(self, host, port, **kw):
            return self.transport

        def create_fair_lock(self):
            lock = FairLock(self) if self.fair else super().create_fair_lock()
            if self.record_locks is not None:
                lock = HolderLock(lock)
                self.record_locks.append(lock)
            return lock

    class HolderLock:
        """the lock itself, plus who holds it (no extra suspension point)"""

        def __init__(self, real):
            self.real = real
            self.holder = None

        async def acquire(self):
            await self.real.acquire()
            self.holder = asyncio.current_task()
            return True

        def release(self):
            self.holder = None
            self.real.release()

        def locked(self):
            return self.real.locked()

        async def __aenter__(self):
            await self.acquire()

        async def __aexit__(self, *a):
            self.release()

    class BioProxy:
        """the transport's view of its write BIO: a read outside the send lock is recorded"""

        def __init__(self, real, lower, lock):
            self.real, self.lower, self.lock = real, lower, lock

        @property
        def pending(self):
            return self.real.pending

        @property
        def eof(self):
            return self.real.eof

        def read(self, n=-1):
            if self.lower.gated and self.lock.holder is not asyncio.current_task():
                self.lower.unlocked.append("the write BIO was read outside the transport send lock")
            return self.real.read(n)

        def write(self, data):
            return self.real.write(data)

        def write_eof(self):
            return self.real.write_eof()

    _CLS.update(PieceSerializer=PieceSerializer, MemTransport=MemTransport, MemBackend=MemBackend, FairLock=FairLock,
                TlsLower=TlsLower, BioProxy=BioProxy,
                StreamProtocol=StreamProtocol)
    return _CLS


def _code(task):
    if not task.done():
        return None
    if task.cancelled():
        return 11
    exc = task.exception()
    if exc is None:
        return 10
    from easynetwork.exceptions import BusyResourceError

    if isinstance(exc, BusyResourceError):
        return 12
    if isinstance(exc, OSError):
        return 13
    return 14


class Session:
    """the real objects + the script interpreter (used by run_impl, the oracle and the case generator)"""

    def __init__(self, loop, kind, progs, readers=()):
        C = _classes()
        self.loop, self.kind, self.progs = loop, kind, progs
        self.readers = set(readers)
        backend = C["MemBackend"]()
        backend.fair = kind in (KIND_CLIENT_FAIR, KIND_SERVER_FAIR, KIND_RAW, KIND_TLS_FAIR)
        self.transport = tr = C["MemTransport"](backend)
        backend.transport = tr
        protocol = C["StreamProtocol"](C["PieceSerializer"]())
        self.tasks = [None] * len(progs)
        self.snaps = []
        self._keep = []
        if kind == KIND_RAW:
            from easynetwork.lowlevel._utils import ResourceGuard

            lock = C["FairLock"](backend)
            guard = ResourceGuard("busy")

            async def send(pkt):
                async with lock:
                    with guard:
                        await tr.send_all_from_iterable(iter(pkt))

            self.send = send
        elif kind in (KIND_CLIENT, KIND_CLIENT_FAIR):
            from easynetwork.clients.async_tcp import AsyncTCPNetworkClient

            client = AsyncTCPNetworkClient(("127.0.0.1", 9), protocol, backend)
            loop.run_until_complete(client.wait_connected())
            self._keep.append(client)
            self.send = client.send_packet
        elif kind == KIND_ENDPOINT:
            from easynetwork.lowlevel.api_async.endpoints.stream import AsyncStreamEndpoint

            ep = AsyncStreamEndpoint(tr, protocol, max_recv_size=1024)
            self._keep.append(ep)
            self.send = ep.send_packet
        elif kind in (KIND_SERVER, KIND_SERVER_FAIR):
            from easynetwork.lowlevel._stream import StreamDataProducer
            from easynetwork.lowlevel.api_async.servers.stream import ConnectedStreamClient
            from easynetwork.lowlevel.socket import IPv4SocketAddress
            from easynetwork.servers.async_tcp import _ConnectedClientAPI

            inner = ConnectedStreamClient(_transport=tr, _producer=StreamDataProducer(protocol))
            api = _ConnectedClientAPI(IPv4SocketAddress("127.0.0.1", 22222), inner)
            self._keep.append(api)
            self.send = api.send_packet
        elif kind in (KIND_TLS, KIND_TLS_FAIR):
            import tlskit
            from easynetwork.lowlevel.api_async.transports.tls import AsyncTLSStreamTransport

            peer = tlskit.Peer(tlskit.server_ctx(tlskit.TLS13), True, [])
            self.transport = lower = C["TlsLower"](backend, peer)
            backend.record_locks = []
            tls = loop.run_until_complete(AsyncTLSStreamTransport.wrap(
                lower, tlskit.client_ctx(tlskit.TLS13), server_side=False, server_hostname="localhost"))
            if backend.record_locks:         # the first fair lock the transport creates is its send lock
                lower.send_lock = backend.record_locks[0]
                # both memory BIOs of the transport, found by type (whatever their names): the transport only ever READS
                # its write BIO, so a recorded read identifies it
                import ssl as _ssl

                for klass in type(tls).__mro__:
                    for slot in getattr(klass, "__slots__", ()):
                        for name in (slot, f"_{klass.__name__}{slot}" if slot.startswith("__") else slot):
                            with contextlib.suppress(AttributeError):
                                if isinstance(getattr(tls, name), _ssl.MemoryBIO):
                                    setattr(tls, name, C["BioProxy"](getattr(tls, name), lower, lower.send_lock))
                                    self.bio_proxies = getattr(self, "bio_proxies", 0) + 1
            lower.gated = True
            lower.inbox.clear()      # (post-handshake session tickets: a reader must find nothing to read)
            self._keep.append(tls)
            self.tls = tls
        else:
            raise ValueError(kind)

    async def _reader(self):
        await self.tls.recv(1024)

    async def _program(self, prog):
        for pkt in prog:
            if self.kind in (KIND_TLS, KIND_TLS_FAIR):
                if len(pkt) == 1:
                    await self.tls.send_all(pkt[0])
                else:
                    await self.tls.send_all_from_iterable(iter(pkt))
            else:
                await self.send(tuple(pkt))

    def status(self, t):
        task = self.tasks[t]
        if task is None:
            return 0
        c = _code(task)
        if c is not None:
            return c
        return 2 if str(t) in self.transport.gates else 1

    def snapshot(self):
        return [len(self.transport.wire), [self.status(t) for t in range(len(self.progs))]]

    def tick(self):
        self.loop.call_soon(self.loop.stop)
        self.loop.run_forever()

    def settle(self):
        n = 0
        while self.loop._ready:
            self.tick()
            n += 1
            if n > 10000:
                raise detloop.DeadlockError("livelock while settling")

    def act(self, a):
        code = a[0]
        if code == A_TICK:
            self.tick()
            self.snaps.append(self.snapshot())
            return
        if code == A_SETTLE:
            self.settle()
            self.snaps.append(self.snapshot())
            return
        t = a[1]
        if code == A_START:
            if self.tasks[t] is None:
                coro = self._reader() if t in self.readers else self._program(self.progs[t])
                self.tasks[t] = self.loop.create_task(coro, name=str(t))
        elif code in (A_OK, A_FAIL):
            fut = self.transport.gates.get(str(t))
            if fut is not None and not fut.done():
                if code == A_OK:
                    fut.set_result(None)
                else:
                    fut.set_exception(ConnectionResetError(104, "reset by the harness"))
        elif code == A_CANCEL:
            task = self.tasks[t]
            if task is not None and not task.done():
                task.cancel()

    def finish(self):
        self.transport.closing = True
        for task in self.tasks:
            if task is not None and not task.done():
                task.cancel()
        self.settle()
        for task in self.tasks:
            if task is not None and task.done() and not task.cancelled():
                task.exception()


def execute(kind, progs, actions, epilogue=False, readers=()):
    with detloop.running() as loop:
        s = Session(loop, kind, progs, readers)
        try:
            for a in actions:
                s.act(a)
            if epilogue:
                # end every transport suspension until nothing is suspended any more: every started send must finish
                s.act([A_SETTLE])
                for _ in range(200):
                    busy = [t for t in range(len(progs)) if s.status(t) == 2]
                    if not busy:
                        break
                    for t in busy:
                        s.act([A_OK, t])
                    s.act([A_SETTLE])
            wire = list(s.transport.calls) if kind in (KIND_TLS, KIND_TLS_FAIR) else bytes(s.transport.wire)
            snaps = s.snaps
            if getattr(s.transport, "overlap", False):
                wire = wire + [b"<overlap>"]
            for note in sorted(set(getattr(s.transport, "unlocked", None) or ())):
                wire = wire + [b"<unlocked> " + note.encode()]
        finally:
            s.finish()
    return snaps, wire


def run_impl(inp):
    kind, progs, actions = inp[0], inp[1], inp[2]
    if kind in (KIND_THREAD_TCP, KIND_THREAD_UDP):
        return run_threads(kind, progs, actions)
    snaps, wire = execute(kind, progs, actions, readers=inp[3] if len(inp) > 3 else ())
    return [snaps, wire]


# ------------------------------------------------------------------------------------------------ blocking clients, threads

_LISTENER = None


def _listener():
    global _LISTENER
    if _LISTENER is None:
        _LISTENER = _socket.socket(_socket.AF_INET, _socket.SOCK_STREAM)
        _LISTENER.bind(("127.0.0.1", 0))
        _LISTENER.listen(64)
    return _LISTENER


A_TSTART = 6      # thread kinds: [6, t, c] start a thread whose send_packet uses timeout 0 (c=0) / SHORT_TIMEOUT (c=1) / inf (c=2)
                  # / LONG_TIMEOUT (c=3: finite, never expires: the lock holder is released by the script while the caller waits)
LONG_TIMEOUT = 3600.0
SHORT_TIMEOUT = 0.05


_HUNG = []


class ThreadCtl:
    """gates every socket.send / sendmsg of the client's socket: the calling thread parks (holding the client's send lock)
    until the script releases it, then the 'kernel' accepts the next scripted number of bytes"""

    WATCHDOG = 120.0     # generous: only a genuine hang ever waits that long (explicit conditions everywhere else)

    def __init__(self, sizes):
        import threading

        self.cv = threading.Condition()
        self.sizes = sizes              # thread name -> list of byte counts, one per send call
        self.at_gate = None             # name of the thread parked in send
        self.released = set()
        self.gate_log = []              # order in which threads got hold of the socket
        self.errors = []
        self.abort = False

    def fail(self, msg):
        self.errors.append(msg)
        self.abort = True
        self.cv.notify_all()

    def gate(self, avail):
        import threading

        name = threading.current_thread().name
        with self.cv:
            if self.abort:
                raise RuntimeError("harness aborted")
            if self.at_gate is not None:
                self.fail(f"thread {name} entered socket.send while thread {self.at_gate} is parked inside its own send "
                          f"(the client's send lock does not exclude them)")
                raise RuntimeError("harness: overlapping sends")
            self.at_gate = name
            self.gate_log.append(name)
            self.cv.notify_all()
            ok = self.cv.wait_for(lambda: name in self.released or self.abort, timeout=self.WATCHDOG)
            self.released.discard(name)
            self.at_gate = None
            self.cv.notify_all()
            if self.abort:
                raise RuntimeError("harness aborted")
            if not ok:
                self.fail(f"watchdog: {name} was never released")
                raise TimeoutError("harness watchdog")
            k = self.sizes[name].pop(0) if self.sizes.get(name) else avail
        return max(1, min(k, avail))


class GatedSocket(_socket.socket):
    ctl = None

    def send(self, data, flags=0):
        with memoryview(data) as view:
            n = self.ctl.gate(view.nbytes)
            return super().send(view[:n], flags)

    def sendmsg(self, buffers, *args):
        data = b"".join(bytes(b) for b in buffers)
        n = self.ctl.gate(len(data))
        return super().send(data[:n])


def _parse_stream(wire):
    out, pos = [], 0
    while pos < len(wire):
        if not wire[pos] & 0x80 or pos + 3 > len(wire):
            return None
        end = pos + 3 + wire[pos + 2]
        if end > len(wire) or any(b & 0x80 for b in wire[pos + 1:end]):
            return None
        out.append(bytes(wire[pos:end]))
        pos = end
    return out


def run_threads(kind, progs, actions, detail=False):
    """returns [sorted packets received by the peer (or [raw wire] when the stream does not parse), statuses]"""
    import threading
    import time

    from easynetwork.protocol import DatagramProtocol
    from easynetwork.serializers.abc import AbstractPacketSerializer

    C = _classes()
    n = len(progs)
    names = [str(t) for t in range(n)]
    if kind == KIND_THREAD_TCP:
        sizes = {names[t]: [len(pc) for pkt in progs[t] for pc in pkt] for t in range(n)}
    else:
        sizes = {names[t]: [1 << 20 for _pkt in progs[t]] for t in range(n)}
    ctl = ThreadCtl(sizes)
    if kind == KIND_THREAD_TCP:
        from easynetwork.clients.tcp import TCPNetworkClient

        sock = GatedSocket(_socket.AF_INET, _socket.SOCK_STREAM)
        sock.ctl = ctl
        sock.connect(_listener().getsockname())
        peer, _ = _listener().accept()
        client = TCPNetworkClient(sock, C["StreamProtocol"](C["PieceSerializer"]()))
    else:
        from easynetwork.clients.udp import UDPNetworkClient

        class JoinSerializer(AbstractPacketSerializer):
            def serialize(self, packet):
                return b"".join(packet)

            def deserialize(self, data):
                return data

        peer = _socket.socket(_socket.AF_INET, _socket.SOCK_DGRAM)
        peer.bind(("127.0.0.1", 0))
        sock = GatedSocket(_socket.AF_INET, _socket.SOCK_DGRAM)
        sock.ctl = ctl
        sock.bind(("127.0.0.1", 0))
        sock.connect(peer.getsockname())
        client = UDPNetworkClient(sock, DatagramProtocol(JoinSerializer()))
    results = {}
    threads = {}

    def body(t, timeout):
        try:
            for pkt in progs[t]:
                client.send_packet(tuple(pkt), timeout=timeout)
            results[t] = 10
        except OSError:
            results[t] = 13
        except BaseException:
            results[t] = 14
        finally:
            with ctl.cv:
                ctl.cv.notify_all()

    def alive():
        return [th for th in threads.values() if th.is_alive()]

    closed = []

    def safe_close(limit=None):
        """client.close() takes the send lock: run it aside so that a lock left held for ever cannot hang the harness"""
        if closed:
            return True

        def run():
            with contextlib.suppress(Exception):
                client.close()
            closed.append(1)

        th = threading.Thread(target=run, daemon=True)
        th.start()
        th.join(limit if limit is not None else (ThreadCtl.WATCHDOG if not _HUNG else 5.0))
        if not closed:
            _HUNG.append(1)
        return bool(closed)

    def wait_until(pred):
        """poll (a dying thread notifies, but is_alive() flips a moment later)"""
        deadline = time.monotonic() + (ThreadCtl.WATCHDOG if not _HUNG else 5.0)
        while True:
            with ctl.cv:
                if ctl.abort or pred():
                    return True
                ctl.cv.wait(0.002)
            if time.monotonic() > deadline:
                with ctl.cv:
                    ctl.fail("watchdog: some thread is blocked for ever outside socket.send (waiting for the client's send lock "
                             "that nobody holds any more?)")
                _HUNG.append(1)      # a genuine hang has been seen in this process: the following waits are short
                return False

    def quiescent():
        return not ctl.released and (ctl.at_gate is not None or not alive())

    def release_one():
        with ctl.cv:
            who = ctl.at_gate
            if who is None:
                return False
            ctl.released.add(who)
            ctl.cv.notify_all()
        return True

    try:
        for a in actions:
            if ctl.abort:
                break
            if a[0] in (A_START, A_TSTART) and a[1] not in threads:
                t = a[1]
                tcode = None if a[0] == A_START else (a[2] if len(a) > 2 else 1)
                tmo = {None: None, 0: 0.0, 1: SHORT_TIMEOUT, 2: float("inf"), 3: LONG_TIMEOUT}[tcode]
                th = threading.Thread(target=body, args=(t, tmo), name=names[t], daemon=True)
                threads[t] = th
                th.start()
                if a[0] == A_TSTART and tcode in (0, 1):
                    # it either times out on the lock (held by the thread parked in send) or gets into send itself
                    wait_until(lambda: not th.is_alive() or ctl.at_gate == names[t])
                wait_until(quiescent)
            elif a[0] == A_OK:
                if release_one():
                    wait_until(quiescent)
        # epilogue: let every send finish
        for _ in range(100000):
            if ctl.abort:
                break
            wait_until(quiescent)
            if not alive() and ctl.at_gate is None:
                break
            release_one()
        with ctl.cv:
            if ctl.abort:
                ctl.released.update(names)
                ctl.cv.notify_all()
        for th in threads.values():
            th.join(5.0 if (ctl.errors or _HUNG) else ThreadCtl.WATCHDOG)
            if th.is_alive():
                ctl.errors.append(f"watchdog: thread {th.name} did not finish")
        packets = []
        if not ctl.errors:
            if not safe_close():
                ctl.errors.append("watchdog: every send_packet has returned but client.close() blocks: the send lock is still held "
                                  "at quiescence")
            elif kind == KIND_THREAD_TCP:
                peer.settimeout(60.0)
                wire = bytearray()
                while True:
                    chunk = peer.recv(65536)
                    if not chunk:
                        break
                    wire += chunk
                pk = _parse_stream(wire)
                packets = sorted(pk) if pk is not None else [bytes(wire)]
            else:
                # loopback datagrams are queued at the receiver when send() returns: every thread has been joined, so
                # they are all there; the generous timeout only matters if one is missing (a failure anyway)
                expected = sum(len(progs[t]) for t in threads if results.get(t) == 10)
                peer.settimeout(30.0)
                try:
                    while len(packets) < expected:
                        packets.append(peer.recv(65536))
                    peer.setblocking(False)
                    while True:                      # anything beyond what was sent?
                        packets.append(peer.recv(65536))
                except (TimeoutError, OSError):
                    pass
                packets.sort()
    finally:
        with ctl.cv:
            ctl.abort = True
            ctl.cv.notify_all()
        # (client.close() takes the send lock: if a defect left it held for ever, do not hang with it)
        safe_close(2.0)
        with contextlib.suppress(Exception):
            sock.close()
        peer.close()
    if ctl.errors:
        raise RuntimeError("; ".join(ctl.errors))
    statuses = [results.get(t, 0) if t in threads else 0 for t in range(n)]
    if detail:
        return packets, statuses, list(ctl.gate_log)
    return [packets, statuses]


# ------------------------------------------------------------------------------------------------ params from the source

_FL = "src/easynetwork/lowlevel/api_async/backend/_common/fair_lock.py"
_TLS = "src/easynetwork/lowlevel/api_async/transports/tls.py"


def _func(path, cls, name):
    import ast
    import os

    from common import runner

    try:
        tree = ast.parse(open(os.path.join(runner.REPO, path)).read())
    except (OSError, SyntaxError) as exc:
        raise runner.TranslateError(f"{path}: {exc}")
    for node in tree.body:
        if isinstance(node, ast.ClassDef) and node.name == cls:
            for sub in node.body:
                if isinstance(sub, (ast.FunctionDef, ast.AsyncFunctionDef)) and sub.name == name:
                    return sub
    raise runner.TranslateError(f"{path}: {cls}.{name} not found")


def _is_self_attr(node, attr):
    import ast

    return isinstance(node, ast.Attribute) and isinstance(node.value, ast.Name) and node.value.id == "self" and node.attr == attr


class _Outside(Exception):
    """the source is outside the fragment the `ast` reader understands: the behavioural probes decide alone"""


def _self_attr_name(node):
    """`self.<name>` -> name (else None)"""
    import ast

    if isinstance(node, ast.Attribute) and isinstance(node.value, ast.Name) and node.value.id == "self":
        return node.attr
    return None


def _bool_of(expr, env):
    """value of a condition built from self.<flag> / self.<queue> with not / and / or; _Outside otherwise"""
    import ast

    if isinstance(expr, ast.BoolOp):
        vals = [_bool_of(v, env) for v in expr.values]
        return all(vals) if isinstance(expr.op, ast.And) else any(vals)
    if isinstance(expr, ast.UnaryOp) and isinstance(expr.op, ast.Not):
        return not _bool_of(expr.operand, env)
    name = _self_attr_name(expr)
    if name in env:
        return env[name]
    raise _Outside("condition outside the fragment")


def ast_params():
    """FairLock facts as far as the `ast` reader sees them.  Fields and helper are identified by their ROLES, not by their
    names: the flag is the attribute set to True at the end of acquire() and to False in release(); the queue is the
    attribute the new waiter is appended to; the wake-up helper is the method that subscripts the queue.  Tolerant of
    guard clauses, negated conditions, nesting.  _Outside (never a definite value) when a role or a shape is not recognised."""
    import ast

    out = {}
    fn = _func(_FL, "FairLock", "acquire")
    rel = _func(_FL, "FairLock", "release")

    def assigned_const(f, value):
        return {_self_attr_name(t) for n in ast.walk(f) if isinstance(n, ast.Assign) and isinstance(n.value, ast.Constant)
                and n.value.value is value for t in n.targets if _self_attr_name(t)}

    flags = assigned_const(fn, True) & assigned_const(rel, False)
    queues = {_self_attr_name(n.func.value) for n in ast.walk(fn) if isinstance(n, ast.Call) and isinstance(n.func, ast.Attribute)
              and n.func.attr == "append" and _self_attr_name(n.func.value)}
    if len(flags) != 1 or len(queues) != 1:
        raise _Outside("FairLock: cannot identify the locked flag / the waiter queue by their roles")
    flag, queue = next(iter(flags)), next(iter(queues))
    import os

    from common import runner

    tree = ast.parse(open(os.path.join(runner.REPO, _FL)).read())
    cls = [n for n in tree.body if isinstance(n, ast.ClassDef) and n.name == "FairLock"][0]
    wakers = [m for m in cls.body if isinstance(m, ast.FunctionDef) and m.name not in ("acquire", "release")
              and any(isinstance(x, ast.Subscript) and _self_attr_name(x.value) == queue for x in ast.walk(m))]
    if len(wakers) != 1:
        raise _Outside("FairLock: cannot identify the wake-up helper")
    waker = wakers[0]

    def is_wake_call(stmt):
        return isinstance(stmt, ast.Expr) and isinstance(stmt.value, ast.Call) and _self_attr_name(stmt.value.func) == waker.name

    # the first `if` decides between the fast path and parking
    ifs = [n for n in fn.body if isinstance(n, ast.If)]
    if not ifs:
        raise _Outside("FairLock.acquire: no top-level if")
    first = ifs[0]
    body_awaits = any(isinstance(n, ast.Await) for st in first.body for n in ast.walk(st))
    body_returns = any(isinstance(n, ast.Return) for st in first.body for n in ast.walk(st))
    if body_awaits and not first.orelse:
        parks_when = True
    elif body_returns and not body_awaits:
        parks_when = False
    else:
        raise _Outside("FairLock.acquire: unrecognised shape of the first if")
    table = {(lk, q): _bool_of(first.test, {flag: lk, queue: q}) == parks_when for lk in (False, True) for q in (False, True)}
    if table[(False, False)] or not table[(True, False)] or not table[(True, True)]:
        raise _Outside("FairLock.acquire: the condition does not park exactly when the lock is held")
    out["fairlock_fast_path_checks_queue"] = table[(False, True)]
    tries = [n for n in ast.walk(fn) if isinstance(n, ast.Try)]
    inner = [t for t in tries if t.finalbody]
    outer = [t for t in tries if t.handlers]
    if len(inner) != 1 or len(outer) != 1 or len(outer[0].handlers) != 1:
        raise _Outside("FairLock.acquire: expected one try/finally and one try/except")
    fin = inner[0].finalbody
    if len(fin) != 1 or not isinstance(fin[0], ast.Expr) or not isinstance(fin[0].value, ast.Call) \
            or not isinstance(fin[0].value.func, ast.Attribute) or _self_attr_name(fin[0].value.func.value) != queue:
        raise _Outside("FairLock.acquire: unrecognised finally block")
    call = fin[0].value
    locals_ = {t.id for n in ast.walk(fn) if isinstance(n, ast.Assign) for t in n.targets if isinstance(t, ast.Name)}
    if call.func.attr == "remove" and len(call.args) == 1 and isinstance(call.args[0], ast.Name) and call.args[0].id in locals_:
        out["fairlock_leave_removes_own_waiter"] = True
    elif call.func.attr in ("popleft", "pop"):
        out["fairlock_leave_removes_own_waiter"] = False
    else:
        raise _Outside("FairLock.acquire: unrecognised way of leaving the queue")
    body = outer[0].handlers[0].body
    if len(body) == 2 and isinstance(body[1], ast.Raise) and isinstance(body[0], ast.If) and not body[0].orelse \
            and len(body[0].body) == 1 and is_wake_call(body[0].body[0]):
        out["fairlock_cancel_rewakes_when_free"] = _bool_of(body[0].test, {flag: False, queue: True})
        out["fairlock_cancel_silent_when_held"] = not _bool_of(body[0].test, {flag: True, queue: True})
    elif len(body) == 2 and isinstance(body[1], ast.Raise) and is_wake_call(body[0]):
        out["fairlock_cancel_rewakes_when_free"] = True
        out["fairlock_cancel_silent_when_held"] = False
    elif len(body) == 1 and isinstance(body[0], ast.Raise):
        out["fairlock_cancel_rewakes_when_free"] = False
        out["fairlock_cancel_silent_when_held"] = True
    else:
        raise _Outside("FairLock.acquire: unrecognised except clause")
    subs = [n for n in ast.walk(waker) if isinstance(n, ast.Subscript) and _self_attr_name(n.value) == queue]
    if len(subs) != 1:
        raise _Outside("FairLock wake-up helper: expected one subscript of the queue")
    idx = subs[0].slice
    if isinstance(idx, ast.Constant) and isinstance(idx.value, int):
        out["fairlock_wakes_the_head"] = idx.value == 0
    elif isinstance(idx, ast.UnaryOp) and isinstance(idx.op, ast.USub):
        out["fairlock_wakes_the_head"] = False
    else:
        raise _Outside("FairLock wake-up helper: unrecognised index")
    return out


def ast_params_tls():
    """TLS facts.  Roles, not names: the wrapped transport is the attribute whose send_all() is called; the write BIO is
    the attribute that is read and whose `.pending` is tested; the locks are the attributes assigned from the backend's
    create_fair_lock()/create_lock(); the SEND lock is the one held (`async with`) around a send on the wrapped
    transport.  When a role cannot be identified: _Outside (the probe decides alone), never a definite False."""
    import ast
    import os

    from common import runner

    out = {}
    try:
        tree = ast.parse(open(os.path.join(runner.REPO, _TLS)).read())
    except (OSError, SyntaxError) as exc:
        raise runner.TranslateError(f"{_TLS}: {exc}")
    found = [n for n in tree.body if isinstance(n, ast.ClassDef) and n.name == "AsyncTLSStreamTransport"]
    if not found:
        raise _Outside("class AsyncTLSStreamTransport not found")
    cls = found[0]
    methods = {m.name: m for m in cls.body if isinstance(m, (ast.FunctionDef, ast.AsyncFunctionDef))}
    # ---- the whole packet enters the backlog before the first await
    fn = methods.get("send_all_from_iterable")
    if fn is None:
        raise _Outside("send_all_from_iterable not found")
    aliases = {t.id: _self_attr_name(n.value) for n in ast.walk(fn) if isinstance(n, ast.Assign) and _self_attr_name(n.value)
               for t in n.targets if isinstance(t, ast.Name)}
    calls = [n.func.attr for n in ast.walk(fn) if isinstance(n, ast.Call) and isinstance(n.func, ast.Attribute)
             and n.func.attr in ("extend", "append", "appendleft", "extendleft")
             and (_self_attr_name(n.func.value) or (isinstance(n.func.value, ast.Name) and n.func.value.id in aliases))]
    loops = [n for n in ast.walk(fn) if isinstance(n, (ast.For, ast.AsyncFor, ast.While))]
    awaits_in_loops = any(isinstance(x, ast.Await) for lp in loops for x in ast.walk(lp))
    if calls == ["extend"] and not loops:
        out["tls_whole_packet_enters_backlog_at_once"] = True
    elif calls and awaits_in_loops:
        out["tls_whole_packet_enters_backlog_at_once"] = False
    # (else: not recognised, the probe decides)
    # ---- roles
    sends = [n for n in ast.walk(cls) if isinstance(n, ast.Call) and isinstance(n.func, ast.Attribute) and n.func.attr == "send_all"
             and _self_attr_name(n.func.value)]
    lowers = {_self_attr_name(n.func.value) for n in sends}
    pend = {_self_attr_name(n.value) for n in ast.walk(cls) if isinstance(n, ast.Attribute) and n.attr == "pending" and _self_attr_name(n.value)}
    reads = [n for n in ast.walk(cls) if isinstance(n, ast.Call) and isinstance(n.func, ast.Attribute) and n.func.attr == "read"
             and _self_attr_name(n.func.value) in pend]
    bios = {_self_attr_name(n.func.value) for n in reads}
    lock_attrs = {_self_attr_name(t) for n in ast.walk(cls) if isinstance(n, ast.Assign) and isinstance(n.value, ast.Call)
                  and isinstance(n.value.func, ast.Attribute) and n.value.func.attr in ("create_fair_lock", "create_lock")
                  for t in n.targets if _self_attr_name(t)}
    if len(lowers) != 1 or len(bios) != 1 or not lock_attrs:
        return out
    holders = {}          # lock attribute -> ids of the nodes inside an `async with self.<lock>`
    for node in ast.walk(cls):
        if isinstance(node, ast.AsyncWith):
            for item in node.items:
                name = _self_attr_name(item.context_expr)
                if name in lock_attrs:
                    holders.setdefault(name, set()).update(id(sub) for sub in ast.walk(node))
    send_locks = [name for name, ids in holders.items() if any(id(n) in ids for n in sends)]
    if len(send_locks) != 1:
        return out            # no lock (or several) around the sends: the role is not identified, the probe decides
    under = holders[send_locks[0]]
    out["tls_bio_read_under_send_lock"] = all(id(n) in under for n in reads)
    out["tls_transport_send_under_send_lock"] = all(id(n) in under for n in sends)
    return out


def behavioural_params():
    """the same facts decided by scripted probes on the REAL FairLock / AsyncTLSStreamTransport (deterministic loop)"""
    from common import runner

    S, T = [A_SETTLE], [A_TICK]
    one = lambda n: [[[bytes([0x80 | t, 0, 1, t])]] for t in range(n)]      # noqa: E731  one one-piece packet per task

    def final(kind, progs, acts, readers=()):
        snaps, wire = execute(kind, progs, acts, readers=readers)
        return snaps[-1][1], wire

    out = {}
    # A holds, B C queue, A's send ends: the head (B) gets the lock, then C
    st1, _ = final(KIND_RAW, one(3), [[A_START, 0], [A_START, 1], [A_START, 2], S, [A_OK, 0], S])
    out["fairlock_wakes_the_head"] = st1 == [10, 2, 1]
    # A holds, B C D queue, C (not the head) is cancelled, A ends: B must get the lock, then D
    st2, _ = final(KIND_RAW, one(4), [[A_START, 0], [A_START, 1], [A_START, 2], [A_START, 3], S, [A_CANCEL, 2], S, [A_OK, 0], S])
    st3, _ = final(KIND_RAW, one(4), [[A_START, 0], [A_START, 1], [A_START, 2], [A_START, 3], S, [A_CANCEL, 2], S, [A_OK, 0], S,
                                      [A_OK, 1], S])
    out["fairlock_leave_removes_own_waiter"] = st2 == [10, 2, 11, 1] and st3 == [10, 10, 11, 2]
    # A ends (B woken, not run yet), B cancelled: B's except branch must wake C
    st4, _ = final(KIND_RAW, one(3), [[A_START, 0], [A_START, 1], [A_START, 2], S, [A_OK, 0], T, [A_CANCEL, 1], S])
    out["fairlock_cancel_rewakes_when_free"] = st4 == [10, 11, 2]
    # A holds, B C queue, B cancelled WHILE A holds: nobody may be woken (C keeps waiting, A keeps the transport) ...
    st6, _ = final(KIND_RAW, one(3), [[A_START, 0], [A_START, 1], [A_START, 2], S, [A_CANCEL, 1], S])
    # ... and once A ends, C gets the lock
    st7, _ = final(KIND_RAW, one(3), [[A_START, 0], [A_START, 1], [A_START, 2], S, [A_CANCEL, 1], S, [A_OK, 0], S])
    out["fairlock_cancel_silent_when_held"] = st6 == [2, 11, 1] and st7 == [10, 11, 2]
    if not out["fairlock_cancel_silent_when_held"] and not out["fairlock_leave_removes_own_waiter"]:
        # the leave probe cancels a waiter while the lock is held: with a cancel branch that wakes somebody there it cannot
        # tell how the waiter left the queue.  Undecided by behaviour: the ast reader has to say (else fail closed).
        out["fairlock_leave_removes_own_waiter"] = None
    # A ends and C arrives in the same iteration (lock free, B queued): C must queue behind B
    st5, _ = final(KIND_RAW, one(3), [[A_START, 0], [A_START, 1], S, [A_OK, 0], [A_START, 2], S])
    out["fairlock_fast_path_checks_queue"] = st5 == [10, 2, 1]
    # ---- TLS: two-chunk packet: both chunks are in the first underlying send
    a = [bytes([0x80, 0, 2]), bytes([5, 6])]
    progs = [[a], [[bytes([0x81, 0, 1, 7])]], []]
    _, wire = final(KIND_TLS_FAIR, progs, [[A_START, 0], S, [A_OK, 0], S])
    out["tls_whole_packet_enters_backlog_at_once"] = bool(wire) and wire[0] == b"".join(a)
    # two senders, a reader, a cancelled queued sender: where were the write BIO read and the wrapped transport used?
    notes = []
    for acts in ([[A_START, 0], [A_START, 1], [A_START, 2], S, [A_OK, 0], S, [A_OK, 1], S, [A_OK, 2], S],
                 [[A_START, 0], [A_START, 2], [A_START, 1], T, S, [A_CANCEL, 1], S, [A_OK, 0], S, [A_OK, 2], S]):
        for kind in (KIND_TLS, KIND_TLS_FAIR):
            _, wire = final(kind, progs, acts, readers=(2,))
            notes += [w for w in wire if w.startswith(b"<unlocked> ")]
    out["tls_bio_read_under_send_lock"] = not any(b"BIO" in w for w in notes)
    out["tls_transport_send_under_send_lock"] = not any(b"send_all" in w for w in notes)
    # the probes themselves must be wired: a session whose write BIO is not the recording proxy proves nothing
    with detloop.running() as loop:
        sess = Session(loop, KIND_TLS_FAIR, progs, (2,))
        try:
            wired = getattr(sess, "bio_proxies", 0) >= 2 and sess.transport.send_lock is not None
        finally:
            sess.finish()
    if not wired:
        raise runner.TranslateError("behavioural probe: the TLS transport's write BIO / send lock could not be instrumented")
    return out


_PARAMS = None
PROVENANCE = {}


def source_params():
    """fact -> value; PROVENANCE[fact] in {"ast+behavioural", "behavioural (...)"}.  The probes on the real objects always
    decide; when the `ast` reader understands the source it must agree with them (disagreement = fail closed).  Every
    value must be True for Conc/FairLock.v and Conc/TlsSend.v to be the code: Props/C12.v proves exactly that."""
    global _PARAMS, PROVENANCE
    from common import runner

    if _PARAMS is not None:
        return _PARAMS
    beh = behavioural_params()
    static, why = {}, []
    for reader in (ast_params, ast_params_tls):
        try:
            static.update(reader())
        except _Outside as exc:
            why.append(str(exc))
    prov = {}
    for k, v in list(beh.items()):
        if v is None:
            if k not in static:
                raise runner.TranslateError(f"{k}: undecided by the probes and outside the ast reader's fragment")
            beh[k] = static[k]
            prov[k] = "ast (the probe is undecided)"
        elif k in static:
            if static[k] != v:
                raise runner.TranslateError(f"{k}: the source reads {static[k]} but the probe on the real object says {v}")
            prov[k] = "ast+behavioural"
        else:
            prov[k] = "behavioural (ast reader: " + "; ".join(why) + ")"
    PROVENANCE = prov
    _PARAMS = beh
    return beh


def params():
    p = source_params()
    return "".join(f"(* [{PROVENANCE[k].split(' (')[0]}] *)\nDefinition {k} : bool := {'true' if v else 'false'}.\n"
                   for k, v in sorted(p.items()))


def extra(ctx):
    try:
        sp = source_params()
        return dict(source_params=sp, source_params_provenance=dict(PROVENANCE))
    except Exception as exc:      # (a TranslateError is already reported through params())
        return dict(source_params=f"unavailable: {exc}")


# ------------------------------------------------------------------------------------------------ packets

def mkpacket(t, seq, plen):
    return bytes([0x80 | t, seq, plen]) + bytes((7 * t + 3 * seq + i) % 0x80 for i in range(plen))


def cut(data, cuts):
    pts = [0] + sorted(cuts) + [len(data)]
    return [data[a:b] for a, b in zip(pts, pts[1:])]


def mkprogs(shape, rng=None):
    """shape = per task a list of piece counts; piece count 0 = a send that never suspends"""
    progs = []
    for t, counts in enumerate(shape):
        prog = []
        for seq, k in enumerate(counts):
            if k == 0:
                prog.append([])
                continue
            plen = max(k - 1, 1) + (rng.randrange(3) if rng else 0)
            data = mkpacket(t, seq, plen)
            pos = list(range(1, len(data)))
            cuts = sorted(rng.sample(pos, k - 1)) if rng else pos[: k - 1]
            prog.append(cut(data, cuts))
        progs.append(prog)
    return progs


# ------------------------------------------------------------------------------------------------ oracle

def oracle(inp):
    """The property on the implementation: the wire is a sequence of whole packets (a proper prefix only for a send
    that the script itself cancelled or failed inside the transport), each at most once, per-task order kept, every
    packet of a task that returned is there; with the client lock nobody gets BusyResourceError / another error."""
    kind, progs, actions = inp[0], inp[1], inp[2]
    if kind in (KIND_THREAD_TCP, KIND_THREAD_UDP):
        return oracle_threads(kind, progs, actions)
    readers = set(inp[3]) if len(inp) > 3 else set()
    snaps, wire = execute(kind, progs, actions, epilogue=True, readers=readers)
    if isinstance(wire, list):      # TLS: plaintext decrypted by the peer, per transport call
        notes = [w for w in wire if w.startswith(b"<unlocked> ")]
        if notes:
            return "interleaved: " + notes[0][11:].decode() + " (nothing orders that ciphertext with the other senders' any more)"
        wire = [w for w in wire if not w.startswith(b"<unlocked> ")]
        if wire and wire[-1] == b"<overlap>":
            return ("interleaved: two transport.send_all calls of the TLS transport were in flight at once (on a transport "
                    "that writes partially the ciphertext of one flush is cut by the other)")
        wire = b"".join(wire)
    final = snaps[-1][1] if snaps else [0] * len(progs)
    for t, st in enumerate(final):
        if st in (1, 2) and t not in readers:
            return f"stranded: task {t} never finishes its send although every transport suspension was ended (lost wake-up)"
    harmed = {a[1] for a in actions if a[0] in (A_FAIL, A_CANCEL)}
    expected = {}
    for t, prog in enumerate(progs):
        for seq, pkt in enumerate(prog):
            data = pkt if isinstance(pkt, bytes) else b"".join(pkt)
            if data:
                expected[(data[0] & 0x7F, data[1])] = (t, seq, data)
    pos, seen, lastseq = 0, [], {}
    while pos < len(wire):
        if not wire[pos] & 0x80 or pos + 1 >= len(wire) and False:
            return f"interleaved: byte {pos} of the wire {wire.hex()} is not the start of a packet"
        key = (wire[pos] & 0x7F, wire[pos + 1]) if pos + 1 < len(wire) else None
        end = pos + 1
        while end < len(wire) and not wire[end] & 0x80:
            end += 1
        segment = wire[pos:end]
        if key is not None and key in expected:
            cands = [expected[key]]
        else:   # a one-byte segment: the next not yet seen packet of that task
            cands = sorted(v for k, v in expected.items() if v[2][:len(segment)] == segment and (v[0], v[1]) not in seen)
        if not cands:
            return f"interleaved: segment {segment.hex()} at {pos} of the wire {wire.hex()} is no packet prefix"
        t, seq, data = cands[0]
        if data[:len(segment)] != segment:
            return f"interleaved: segment {segment.hex()} at {pos} is not a prefix of packet {data.hex()} (wire {wire.hex()})"
        if segment != data:
            # proper prefix: only for a send harmed by the script, or the one still in flight at the end of the wire
            if not (t in harmed or end == len(wire)):
                return f"interleaved: packet {data.hex()} of task {t} truncated to {segment.hex()} (wire {wire.hex()})"
        if (t, seq) in seen:
            return f"duplicate: packet {data.hex()} twice on the wire {wire.hex()}"
        if lastseq.get(t, -1) > seq:
            return f"reordered: task {t} packet {seq} after packet {lastseq[t]} (wire {wire.hex()})"
        lastseq[t] = seq
        seen.append((t, seq))
        pos = end
    for t, prog in enumerate(progs):
        if final[t] == 10:
            for seq, pkt in enumerate(prog):
                if (pkt if isinstance(pkt, bytes) else b"".join(pkt)) and (t, seq) not in seen:
                    return f"lost: task {t} returned but its packet {seq} is not on the wire {wire.hex()}"
        if kind != KIND_ENDPOINT and final[t] in (12, 14):
            return f"send failed: task {t} ended with code {final[t]} although every send goes through the client lock"
        if final[t] in (11, 13) and t not in harmed:
            return f"send failed: task {t} ended with code {final[t]} without being cancelled or failed by the script"
    return None


def oracle_threads(kind, progs, actions):
    """blocking clients: after every send was allowed to finish the peer has received exactly the packets of the started
    threads, each whole and once (TCP: the stream parses into them), and every send_packet returned"""
    try:
        packets, statuses, _log = run_threads(kind, progs, actions, detail=True)
    except RuntimeError as exc:
        return f"stranded: {exc}" if "watchdog" in str(exc) else f"interleaved: {exc}"
    started = sorted({a[1] for a in actions if a[0] == A_START})
    timed = sorted({a[1] for a in actions if a[0] == A_TSTART and (len(a) < 3 or a[2] in (0, 1))} - set(started))
    started = sorted(set(started) | {a[1] for a in actions if a[0] == A_TSTART and len(a) > 2 and a[2] in (2, 3)})
    for t in started:
        if statuses[t] != 10:
            return f"send failed: thread {t} ended with code {statuses[t]}"
    for t in timed:
        if statuses[t] not in (10, 13):
            return f"send failed: thread {t} (send with a timeout) ended with code {statuses[t]}"
    want = sorted(b"".join(pkt) for t in started + timed if statuses[t] == 10 for pkt in progs[t])
    if packets != want:
        return f"interleaved: the peer received {[p.hex() for p in packets]} instead of the packets {[p.hex() for p in want]}"
    return None


def signature(inp, failure):
    return failure.split(":")[0]


def shrink(inp):
    kind, progs, actions = inp[0], inp[1], inp[2]
    for i in range(len(actions)):
        yield [kind, progs, actions[:i] + actions[i + 1:]] + list(inp[3:])


# ------------------------------------------------------------------------------------------------ cases

def _enabled(statuses, readers=()):
    """actions the implementation can meaningfully perform in a state with these task statuses"""
    out = []
    for t, st in enumerate(statuses):
        if st == 0:
            out.append([A_START, t])
        elif st == 1:
            out.append([A_CANCEL, t])
        elif st == 2:
            out += [[A_OK, t], [A_CANCEL, t]]
            if t not in readers:      # (a failed flush of a reader closes both BIOs: the TLS session is over, C08/C09)
                out.append([A_FAIL, t])
    return out


def _nontrivial(snaps):
    return any(2 in s[1] and 1 in s[1] for s in snaps)


def _queue_cancel(a, statuses):
    """cancellation of a task that waits in the lock queue.  asyncio.Lock (CPython) lets a newcomer in while every queued
    waiter is cancelled but not yet removed, FairLock does not: when something else happens in that window the two locks
    legitimately serve the senders in different orders.  For the objects using asyncio.Lock such a cancellation is
    therefore always run to quiescence on its own; the FairLock objects explore the window exhaustively."""
    return a[0] == A_CANCEL and statuses[a[1]] == 1


def _dfs(kind, progs, max_actions, batch2, budget, readers=()):
    """breadth-first: ALL scripts of at most max_actions non-loop actions (complete up to the length reached when the
    budget runs out); each step = one enabled action + settle, or (batch2) an ordered pair of enabled actions on
    different tasks + one loop iteration + settle"""
    n = len(progs)
    level = [([], [0] * n, 0)]
    count = 0
    while level:
        nxt = []
        for acts, statuses, used in level:
            if used >= max_actions:
                continue
            en = _enabled(statuses, readers)
            steps = [[a, [A_SETTLE]] for a in en]
            if batch2 and used + 2 <= max_actions:
                for a, b in itertools.permutations(en, 2):
                    if a[1] != b[1]:
                        if kind in TICK_KINDS:
                            steps.append([a, b, [A_TICK], [A_SETTLE]])
                        elif not _queue_cancel(a, statuses) and not _queue_cancel(b, statuses):
                            steps.append([a, b, [A_SETTLE]])
            for step in steps:
                acts2 = acts + step
                snaps, _ = execute(kind, progs, acts2, readers=readers)
                count += 1
                yield acts2
                if count >= budget:
                    return
                nxt.append((acts2, snaps[-1][1], used + sum(1 for a in step if a[0] < A_TICK)))
        level = nxt


def _random_script(kind, progs, rng, rounds, readers=()):
    acts, statuses = [], [0] * len(progs)
    for _ in range(rounds):
        en = _enabled(statuses, readers)
        if not en:
            break
        k = min(len(en), rng.choice([1, 1, 2, 2, 3]))
        batch, used = [], set()
        for a in rng.sample(en, len(en)):
            if a[1] not in used and len(batch) < k:
                # cancellations and failures are kept rarer than completions
                if a[0] in (A_CANCEL, A_FAIL) and rng.random() < 0.5:
                    continue
                batch.append(a)
                used.add(a[1])
        if not batch:
            batch = [rng.choice(en)]
        if kind not in TICK_KINDS:
            alone = [a for a in batch if _queue_cancel(a, statuses)]
            if alone:
                batch = alone[:1]
        acts += batch
        if kind in TICK_KINDS:
            acts += rng.choice([[[A_SETTLE]], [[A_TICK]], [[A_TICK], [A_SETTLE]], [[A_TICK], [A_TICK]]])
        else:
            acts += [[A_SETTLE]]
        snaps, _ = execute(kind, progs, acts, readers=readers)
        statuses = snaps[-1][1]
    if not acts or acts[-1] != [A_SETTLE]:
        acts.append([A_SETTLE])
    return acts


KIND_NAMES = {KIND_TLS: "tls.send_all", KIND_TLS_FAIR: "tls.send_all/fairlock", KIND_THREAD_TCP: "blocking-tcp-client/threads",
              KIND_THREAD_UDP: "blocking-udp-client/threads", KIND_RAW: "fairlock+guard", KIND_CLIENT: "async-tcp-client", KIND_CLIENT_FAIR: "async-tcp-client/fairlock",
              KIND_ENDPOINT: "endpoint-no-lock", KIND_SERVER: "server-side-client", KIND_SERVER_FAIR: "server-side-client/fairlock"}


def _thread_case(kind, progs, acts, tag):
    started = {a[1] for a in acts if a[0] in (A_START, A_TSTART)}
    return dict(input=[kind, progs, acts], tags=[KIND_NAMES[kind], tag, f"tasks{len(progs)}"], nontrivial=len(started) >= 2)


def mkplain(shape, rng=None):
    """TLS: per task a list of framed packets, each cut into 1-3 chunks (1 chunk: send_all, more: send_all_from_iterable)"""
    progs = []
    for t, k in enumerate(shape):
        prog = []
        for seq in range(k):
            data = mkpacket(t, seq, 1 + (rng.randrange(4) if rng else seq))
            nch = rng.choice([1, 2, 2, 3]) if rng else 1 + (t + seq) % 2
            pos = list(range(1, len(data)))
            cuts = sorted(rng.sample(pos, nch - 1)) if rng else pos[: nch - 1]
            prog.append(cut(data, cuts))
        progs.append(prog)
    return progs


def _case(kind, progs, acts, tag, readers=None):
    snaps, _ = execute(kind, progs, acts, readers=readers or ())
    tags = [KIND_NAMES[kind], tag, f"tasks{len(progs)}"]
    if readers:
        tags.append("tls-reader")
    if any(a[0] == A_CANCEL for a in acts):
        tags.append("cancel")
    if any(a[0] == A_FAIL for a in acts):
        tags.append("fail")
    if any(12 in s[1] for s in snaps):
        tags.append("busy")
    inp = [kind, progs, acts] + ([sorted(readers or ())] if kind in (KIND_TLS, KIND_TLS_FAIR) else [])
    return dict(input=inp, tags=tags, nontrivial=_nontrivial(snaps))


def cases(tier, rng, escalate):
    thorough = tier == "thorough" or escalate
    kinds = [KIND_RAW, KIND_CLIENT, KIND_CLIENT_FAIR, KIND_ENDPOINT, KIND_SERVER, KIND_SERVER_FAIR]
    # exhaustive part
    shapes2 = [[[2], [1]], [[1, 1], [1]]]
    shapes3 = [[[1], [1], [1]]]
    for kind in kinds:
        for shape in shapes2:
            progs = mkprogs(shape)
            for acts in _dfs(kind, progs, 7 if thorough else 5, True, 2500 if thorough else 260):
                yield _case(kind, progs, acts, "exhaustive")
        for shape in shapes3:
            progs = mkprogs(shape)
            for acts in _dfs(kind, progs, 7 if thorough else 5, thorough, 2500 if thorough else 200):
                yield _case(kind, progs, acts, "exhaustive")
    # TLS transport under concurrent senders
    for kind in (KIND_TLS, KIND_TLS_FAIR):
        for shape, readers in (([2, 1], ()), ([1, 1, 1], ()), ([1, 1, 0], (2,)), ([2, 1, 0], (2,))):
            progs = mkplain(shape)
            for acts in _dfs(kind, progs, 7 if thorough else 5, True, 1200 if thorough else 130, readers):
                yield _case(kind, progs, acts, "exhaustive", readers)
        for _ in range(1500 if thorough else 200):
            n = rng.choice([2, 3, 3, 4])
            readers = (n - 1,) if rng.random() < 0.4 else ()
            progs = mkplain([0 if t in readers else rng.choice([1, 1, 2, 3]) for t in range(n)], rng)
            yield _case(kind, progs, _random_script(kind, progs, rng, rng.randrange(3, 14), readers), "random", readers)
    # blocking clients with real threads: starts interleaved with releases of whichever thread is inside send
    for kind, count in ((KIND_THREAD_TCP, 300 if thorough else 60), (KIND_THREAD_UDP, 150 if thorough else 30)):
        for _ in range(count):
            ntasks = rng.choice([2, 3, 3, 4])
            shape = [[rng.choice([1, 1, 2, 3]) for _ in range(rng.choice([1, 1, 2]))] for _ in range(ntasks)]
            timed = {t: rng.choice([0, 1, 1, 2, 2, 3, 3, 3]) for t in range(ntasks) if rng.random() < 0.4}
            for t, c in timed.items():
                if c in (0, 1):
                    shape[t] = shape[t][:1]       # a sender with a finite timeout sends one packet
            progs = mkprogs(shape, rng)
            pool = [[A_TSTART, t, timed[t]] if t in timed else [A_START, t] for t in range(ntasks) if rng.random() < 0.9]
            pool += [[A_OK, 0]] * rng.randrange(0, 2 + sum(sum(sh) for sh in shape))
            rng.shuffle(pool)
            c = _thread_case(kind, progs, pool, "random")
            if timed:
                c["tags"].append("lock-timeout")
            yield c
        # a sender parked mid-packet, a second send that times out on the lock, a third sender
        # and every kind of timeout (None / 0 / positive / inf) on a free and on a contended lock
        for perm in ([0, 1, 2], [0, 2, 1]) if kind == KIND_THREAD_TCP else ([0, 1, 2],):
            for code in (0, 1, 2, 3):
                progs = mkprogs([[2], [1], [2]])
                timed_start = [A_TSTART, 1, code]
                acts = [[A_START, perm[0]], timed_start if perm[1] == 1 else [A_START, perm[1]],
                        timed_start if perm[2] == 1 else [A_START, perm[2]], [A_OK, 0]]
                # ... and a timed sender that WAITS, is granted when the holder is released, then further senders
                waits = [[A_START, 0], timed_start, [A_OK, 0], [A_OK, 0], [A_START, 2], [A_OK, 0], [A_OK, 0], [A_OK, 0]]
                for script in (acts, [timed_start, [A_START, 0], [A_OK, 0], [A_START, 2]], waits):
                    c = _thread_case(kind, progs, script, "exhaustive")
                    c["tags"].append("lock-timeout")
                    yield c
    # random part
    n_random = 5000 if thorough else 900
    for _ in range(n_random):
        kind = rng.choice(kinds)
        ntasks = rng.choice([2, 3, 3, 4])
        shape = [[rng.choice([0, 1, 1, 2, 3]) for _ in range(rng.choice([1, 1, 2, 3]))] for _ in range(ntasks)]
        progs = mkprogs(shape, rng)
        acts = _random_script(kind, progs, rng, rng.randrange(3, 14))
        yield _case(kind, progs, acts, "random")
