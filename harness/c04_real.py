"""C04 over REAL sockets and REAL TLS objects (part of the C04 driver; imported by c04.run_impl).

Case = [path, iov, chunk specs, T, ri, [], [], impl, [sndbuf, piece, delay_ms, tls_version]]
  impl 5  SocketStreamTransport.send_all_from_iterable on an AF_UNIX socketpair, SO_SNDBUF shrunk      (path 5)
  impl 6  TCPNetworkClient.send_packet over loopback TCP, SO_SNDBUF / SO_RCVBUF shrunk                  (path 5)
  impl 7  SSLStreamTransport.send_all_from_iterable, real TLS handshake with a peer thread (join path)  (path 6)
  impl 9  AsyncTLSStreamTransport.send_all_from_iterable on a real ssl.SSLObject (tlskit peer)          (path 7)
Observable: [outcome, digest(bytes the peer received / decrypted), [], 0]; the real time limits are watchdogs (realio.LIMIT; after the first stuck case realio.SHORT and the rest is skipped) (the
budget itself is C11's subject and is checked on the virtual clock).
"""
from __future__ import annotations

import math

import iosim
import realio



def _finish(reader, outcome):
    reader.join(realio.limit(2.5))
    if reader.is_alive():
        return [8, realio.digest(bytes(reader.data)), [], 0]
    if reader.error is not None and outcome == 0:
        outcome = 41
    return [outcome, realio.digest(bytes(reader.data)), [], 0]


def _call(fn):
    try:
        with iosim.alarm(realio.limit(2.5)):
            fn()
        return 0
    except BaseException as exc:  # noqa: BLE001
        if isinstance(exc, (KeyboardInterrupt, SystemExit)):
            raise
        return iosim.exc_code(exc)


def run_plain(inp):
    from easynetwork.lowlevel import constants
    from easynetwork.lowlevel.api_sync.transports.socket import SocketStreamTransport
    import c04

    path, iov, specs, T, ri, _s, _l, impl, extra = inp[:9]
    sndbuf, piece, delay_ms = extra[:3]
    chunks = [realio.chunk_bytes(c) for c in specs]
    total = sum(map(len, chunks))
    a, b = realio.unix_pair(sndbuf or None)
    reader = realio.Reader(b, total, piece=piece, delay=delay_ms / 1000.0)
    factory = realio.CountingSelectorFactory()
    transport = SocketStreamTransport(a, iosim.secs(iosim.sx_tmo(ri)) if iosim.sx_tmo(ri) is not None else math.inf,
                                      selector_factory=factory)
    saved = constants.SC_IOV_MAX
    constants.SC_IOV_MAX = iov
    reader.start()
    try:
        outcome = _call(lambda: transport.send_all_from_iterable(iter(c04._typed(chunks)), realio.limit()))
    finally:
        constants.SC_IOV_MAX = saved
        transport.close()
    realio.note_waits(factory.waits)
    out = _finish(reader, outcome)
    b.close()
    return out


def run_tcp_client(inp):
    from easynetwork.lowlevel import constants
    from easynetwork.clients.tcp import TCPNetworkClient
    import c04

    path, iov, specs, T, ri, _s, _l, impl, extra = inp[:9]
    sndbuf, piece, delay_ms = extra[:3]
    chunks = [realio.chunk_bytes(c) for c in specs]
    total = sum(map(len, chunks))
    sock, peer = realio.tcp_pair(sndbuf or None, rcvbuf=(sndbuf or None))
    reader = realio.Reader(peer, total, piece=piece, delay=delay_ms / 1000.0)
    ri_s = iosim.secs(iosim.sx_tmo(ri)) if iosim.sx_tmo(ri) is not None else math.inf
    client = TCPNetworkClient(sock, c04._chunk_protocol(), retry_interval=ri_s)
    factory = realio.CountingSelectorFactory()
    client._TCPNetworkClient__endpoint._StreamEndpoint__transport._selector_factory = factory
    saved = constants.SC_IOV_MAX
    constants.SC_IOV_MAX = iov
    reader.start()
    try:
        outcome = _call(lambda: client.send_packet(c04._typed(chunks), timeout=realio.limit()))
    finally:
        constants.SC_IOV_MAX = saved
        client.close()
    realio.note_waits(factory.waits)
    out = _finish(reader, outcome)
    peer.close()
    return out


def run_tls_socket(inp):
    from easynetwork.lowlevel.api_sync.transports.socket import SSLStreamTransport
    import c04
    import tlskit

    path, iov, specs, T, ri, _s, _l, impl, extra = inp[:9]
    sndbuf, piece, delay_ms, ver = extra[:4]
    chunks = [realio.chunk_bytes(c) for c in specs]
    total = sum(map(len, chunks))
    a, b = realio.unix_pair(sndbuf or None)
    sctx = tlskit.server_ctx(ver)
    reader = realio.Reader(b, total, piece=piece, delay=delay_ms / 1000.0,
                           wrap=lambda s: sctx.wrap_socket(s, server_side=True))
    reader.start()
    factory = realio.CountingSelectorFactory()
    ri_s = iosim.secs(iosim.sx_tmo(ri)) if iosim.sx_tmo(ri) is not None else math.inf
    transport = None
    try:
        transport = SSLStreamTransport(a, tlskit.client_ctx(ver), ri_s, server_hostname="localhost", server_side=False,
                                       handshake_timeout=realio.limit(), shutdown_timeout=2.0, standard_compatible=False,
                                       selector_factory=factory)
        handshake_waits = factory.waits
        outcome = _call(lambda: transport.send_all_from_iterable(iter(c04._typed(chunks)), realio.limit()))
        realio.note_waits(factory.waits - handshake_waits)
    except BaseException as exc:  # noqa: BLE001 - handshake failure
        if isinstance(exc, (KeyboardInterrupt, SystemExit)):
            raise
        outcome = 43
    finally:
        if transport is not None:
            transport.close()
        else:
            a.close()
    out = _finish(reader, outcome)
    b.close()
    return out


def run_async_tls_real(inp):
    import asyncio
    from common import detloop
    from easynetwork.lowlevel.api_async.transports.tls import AsyncTLSStreamTransport
    import c04
    import tlskit

    path, iov, specs, T, ri, _s, _l, impl, extra = inp[:9]
    ver = extra[3]
    chunks = [realio.chunk_bytes(c) for c in specs]
    outcome = 0
    peer = tlskit.Peer(tlskit.server_ctx(ver), True, [])

    async def main():
        nonlocal outcome
        rec = tlskit.Recorder()
        mem = tlskit.MemTransport(rec, peer, tlskit.new_backend())
        tls = await AsyncTLSStreamTransport.wrap(mem, tlskit.client_ctx(ver), server_hostname="localhost",
                                                 handshake_timeout=realio.limit(), shutdown_timeout=1.0)
        try:
            await tls.send_all_from_iterable(iter(c04._typed(chunks)))
        except BaseException as exc:  # noqa: BLE001
            if isinstance(exc, (KeyboardInterrupt, SystemExit)):
                raise
            outcome = iosim.exc_code(exc)
        peer.pump()
        mem.closing = True

    with iosim.alarm(realio.limit(2.5)), detloop.running() as loop:
        try:
            loop.run_until_complete(main())
        except detloop.DeadlockError:
            outcome = 8
    return [outcome, realio.digest(bytes(peer.plain_in)), [], 0]


def run_async_tls_cancel(inp):
    """impl 13 (path 12): real AsyncTLSStreamTransport on a real SSLObject.  Task A sends and is parked inside the wrapped
    transport (holding the TLS transport's send lock); task B sends, is queued on that lock and is CANCELLED there (after
    `steps` loop iterations; 0 = cancelled before it ever ran); A is released; then C is sent.
    Observables: outcome of C, digest of what the peer decrypted, peer stream still valid."""
    import asyncio
    from common import detloop
    from easynetwork.lowlevel.api_async.transports.abc import AsyncStreamTransport
    from easynetwork.lowlevel.api_async.transports.tls import AsyncTLSStreamTransport
    import tlskit

    specs_a, specs_b, specs_c, steps, ver = inp[8]
    A = [realio.chunk_bytes(c if isinstance(c, bytes) else tuple(c)) for c in specs_a]
    B = [realio.chunk_bytes(c if isinstance(c, bytes) else tuple(c)) for c in specs_b]
    C = [realio.chunk_bytes(c if isinstance(c, bytes) else tuple(c)) for c in specs_c]
    backend = tlskit.new_backend()
    peer = tlskit.Peer(tlskit.server_ctx(ver), True, [])

    class Wire(AsyncStreamTransport):
        def __init__(self):
            self.inbound = bytearray()
            self.event = asyncio.Event()
            self.closing = False
            self.gate = None
            self.blocked = asyncio.Event()

        async def aclose(self):
            self.closing = True
            self.event.set()

        def is_closing(self):
            return self.closing

        def backend(self):
            return backend

        @property
        def extra_attributes(self):
            return {}

        async def recv(self, bufsize):
            while not self.inbound and not self.closing:
                self.event.clear()
                await self.event.wait()
            data = bytes(self.inbound[:bufsize])
            del self.inbound[:bufsize]
            return data

        async def recv_into(self, buffer):
            with memoryview(buffer) as view:
                data = await self.recv(view.nbytes)
                view[:len(data)] = data
                return len(data)

        async def send_all(self, data):
            data = bytes(data)
            if self.gate is not None:
                self.blocked.set()
                await self.gate.wait()
            peer.feed(data)
            answer = peer.pump()
            if answer:
                self.inbound += answer
                self.event.set()
            await asyncio.sleep(0)

        async def send_eof(self):
            pass

    outcome = 0

    async def main():
        nonlocal outcome
        wire = Wire()
        tls = await AsyncTLSStreamTransport.wrap(wire, tlskit.client_ctx(ver), server_hostname="localhost",
                                                 handshake_timeout=30.0, shutdown_timeout=1.0, standard_compatible=False)
        wire.gate = asyncio.Event()
        task_a = asyncio.ensure_future(tls.send_all_from_iterable(iter(A)))
        await wire.blocked.wait()
        task_b = asyncio.ensure_future(tls.send_all_from_iterable(iter(B)))
        for _ in range(steps):
            await asyncio.sleep(0)
        task_b.cancel()
        await asyncio.wait([task_b])
        gate, wire.gate = wire.gate, None
        gate.set()
        await task_a
        try:
            await tls.send_all_from_iterable(iter(C))
        except BaseException as exc:  # noqa: BLE001
            if isinstance(exc, (KeyboardInterrupt, SystemExit)):
                raise
            outcome = iosim.exc_code(exc)
        peer.pump()
        wire.closing = True

    with iosim.alarm(realio.limit(2.5)), detloop.running() as loop:
        loop.set_exception_handler(lambda _l, _c: None)
        try:
            loop.run_until_complete(main())
        except detloop.DeadlockError:
            outcome = 8
    valid = 1 if peer.read_error is None else 0
    return [outcome, realio.digest(bytes(peer.plain_in)), valid, 0]


def run(inp, force=False):
    """force=True (property oracle): run even after the stream was marked stuck (with the short limits)."""
    import time
    impl = inp[7]
    if not force and realio.skip_now():
        return [45, realio.digest(b""), [], 0]
    t0 = time.monotonic()
    out = {5: run_plain, 6: run_tcp_client, 7: run_tls_socket, 9: run_async_tls_real, 13: run_async_tls_cancel}[impl](inp)
    realio.note_duration(time.monotonic() - t0, out[0] == 0)
    return out
