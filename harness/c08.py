"""C08 — TLS transport is a transparent, encrypted byte stream."""
from __future__ import annotations

import asyncio
import random

import tlskit as K
from common import detloop, sx

PROPERTY_ID = "C08"
RUN_MODULE = "Run.C08"
PROPS_FILE = "Props/C08.v"
ALLOWED_AXIOMS = []
_TLS = "src/easynetwork/lowlevel/api_async/transports/tls.py"
ANCHORS = [
    (_TLS, "AsyncTLSStreamTransport.wrap"),
    (_TLS, "AsyncTLSStreamTransport._retry_ssl_method"),
    (_TLS, "AsyncTLSStreamTransport.__write_all_to_ssl_object"),
    (_TLS, "AsyncTLSStreamTransport.__flush_data_to_send"),
    (_TLS, "AsyncTLSStreamTransport.send_all"),
    (_TLS, "AsyncTLSStreamTransport.send_all_from_iterable"),
    (_TLS, "AsyncTLSStreamTransport.recv"),
    (_TLS, "AsyncTLSStreamTransport.recv_into"),
    (_TLS, "AsyncTLSStreamTransport.__post_init__"),
    (_TLS, "_IncomingDataReader.readinto"),
]
RULE = ("real AsyncTLSStreamTransport (client and server role, TLS 1.2 and 1.3, real OpenSSL) over an in-memory "
        "transport; peer = independent stdlib ssl.SSLObject; after the handshake a writer task (send_all / "
        "send_all_from_iterable, sizes 1 B .. 3 records, several calls) and a reader task (recv / recv_into until the "
        "peer's whole plaintext has arrived) run concurrently; ciphertext from the peer is delivered in fragments of "
        "1, 2, 7, random or unlimited size; every call on the wrapped transport suspends for a seeded number of loop "
        "iterations (interleavings); optional failure of the k-th send_all.  Every SSL-object call (outcome class, "
        "bytes appended to the outgoing BIO), every lock acquisition and every transport answer is recorded per task "
        "in global order and replayed through the model, which must emit the same send_all/recv_into/BIO actions and "
        "results.  Non-trivial = reader and writer events alternate at least three times, or the ciphertext is "
        "fragmented inside records, or a send fails.")
TRUSTED = [
    "model of _retry_ssl_method/__write_all_to_ssl_object/readinto hand-written in coq/Conc/TlsPump.v",
    "ideal record layer coq/Conc/IdealTls.v stands for OpenSSL in the transparency theorems; on the real runs "
    "end-to-end plaintext equality and absence of the plaintext marker from all ciphertext are asserted instead",
    "asyncio.Lock as fair lock: acquisition of a free lock does not suspend (CPython 3.12.1)",
]
ASSUMPTIONS = [
    "one writer at a time on the TLS transport (the endpoint layer serialises senders, property C12)",
    "the wrapped transport's send_all delivers all bytes in order; recv_into returns a non-empty prefix of what is in flight",
]

MARKER = b"<<PLAINTEXT-MARKER-C08>>"
OP_SEND, OP_RECV = 3, 1
_MEMO = {}


def _plain(n, tag):
    base = MARKER + tag
    return (base * (n // len(base) + 1))[:n]


def _exc_code(exc):
    if isinstance(exc, asyncio.CancelledError):
        return 12
    if isinstance(exc, TimeoutError):
        return 11
    return K.classify(exc)


def run_duplex(cfg):
    from easynetwork.lowlevel.api_async.transports.tls import AsyncTLSStreamTransport

    rec = K.Recorder()
    rng = random.Random(cfg["seed"])
    ver, client = cfg["ver"], bool(cfg["client"])
    peer_writes = list(cfg["peer_writes"])
    peer_plain = [_plain(n, b"P%d" % i) for i, n in enumerate(peer_writes)]
    script = [("write", d) for d in peer_plain]
    if client:
        peer = K.Peer(K.server_ctx(ver), True, script)
        ctx = K.RecContext(K.client_ctx(ver), rec)
    else:
        peer = K.Peer(K.client_ctx(ver), False, script)
        ctx = K.RecContext(K.server_ctx(ver), rec)
    peer.lazy = True
    peer.reply_close = True
    frag = cfg["frag"]
    maxy = cfg["yields"]
    info = dict(deadlock=False, results={}, got=bytearray(), sent_plain=bytearray())

    def frags(avail):
        if not cfg.get("frag_hs", 1) and "t" not in info:
            return avail                      # fragmentation starts after the handshake
        if frag == -1:
            return rng.choice([1, 2, 3, 5, 7, 64, 500, 5000, 20000] if avail < 400 else [64, 500, 5000, 20000, 3, 100])
        return frag

    async def main():
        rec.name_task(0)
        backend = K.RecBackend(K.new_backend(), rec)
        tr = K.MemTransport(rec, peer, backend, frags=frags if frag else None,
                            send_yields=(lambda: rng.randint(0, maxy)) if maxy else 0,
                            recv_yields=(lambda: rng.randint(0, maxy)) if maxy else 0,
                            send_fail_at=cfg.get("fail_send_at"))
        tr.peer_silent_eof = True
        info["tr"] = tr
        if not client:
            tr.stream += peer.pump()

        def res(op, kind, v):
            info["results"][op] = [kind, v]

        op = rec.begin_op(K.M_HANDSHAKE, 0, [])
        try:
            with K.patched_ssl_module(rec):
                t = await AsyncTLSStreamTransport.wrap(tr, ctx, server_side=not client,
                                                       server_hostname="localhost" if client else None)
        except BaseException as exc:
            res(op, 1, _exc_code(exc))
            return
        res(op, 0, 0)
        info["t"] = t

        async def writer():
            for i, w in enumerate(cfg["writes"]):
                sizes = list(w) if isinstance(w, (list, tuple)) else [w]
                datas = [_plain(n, b"T%d.%d" % (i, j)) for j, n in enumerate(sizes)]
                op = rec.begin_op(K.M_WRITE, 0, sizes)
                try:
                    if len(datas) == 1:
                        await t.send_all(datas[0])
                    else:
                        await t.send_all_from_iterable(datas)
                    res(op, 0, 0)
                    info["sent_plain"] += b"".join(datas)
                except BaseException as exc:
                    res(op, 1, _exc_code(exc))
                    return

        async def reader():
            want = sum(peer_writes)
            n = cfg["recv_size"]
            while len(info["got"]) < want:
                op = rec.begin_op(K.M_READ, n, [])
                try:
                    if cfg.get("into"):
                        buf = bytearray(n)
                        k = await t.recv_into(buf)
                        d = bytes(buf[:k])
                    else:
                        d = await t.recv(n)
                    res(op, 0, len(d))
                except BaseException as exc:
                    res(op, 1, _exc_code(exc))
                    return
                if not d:
                    return
                info["got"] += d

        await asyncio.gather(writer(), reader())
        info["events_end"] = len(rec.events)
        info["wpending"] = t._write_bio.pending
        info["peer_got_at_end"] = bytes(peer.plain_in)
        try:
            await t.aclose()
        except BaseException:
            pass

    try:
        detloop.run(main())
    except detloop.DeadlockError:
        info["deadlock"] = True
    events = rec.events[: info.get("events_end", len(rec.events))]
    labels, obs = [], []
    nops = 0
    for ev in events:
        k = ev[0]
        if k == "op":
            labels.append([0, ev[2], ev[3], list(ev[4])])
            nops += 1
        elif k == "ssl":
            _, tid, m, arg, code, val, wd = ev
            labels.append([1, tid, 0, m, arg, code, val, wd])
        elif k == "acq":
            labels.append([1, ev[1], 1])
        elif k == "send":
            obs.append([ev[1], 0, ev[2]])
        elif k == "sent":
            labels.append([1, ev[1], 2, 2 if ev[2] else 3, 0])
        elif k == "recv":
            obs.append([ev[1], 1, 0])
        elif k == "rcvd":
            labels.append([1, ev[1], 2, 1, 0] if ev[2] < 0 else [1, ev[1], 2, 0, ev[2]])
        elif k == "feed":
            obs.append([ev[1], 2, ev[2]])
        elif k == "reof":
            obs.append([ev[1], 3, 0])
        elif k == "weof":
            obs.append([ev[1], 4, 0])
        # "close" (aclose_forcefully after a failed handshake) belongs to wrap()/aclose(), modelled in C09's op layer
        elif k == "cancel":
            labels.append([1, ev[1], 2, 4, 0])
    results = [info["results"].get(i, [9, 9]) for i in range(nops)]
    tr = info.get("tr")
    out = [obs, results, info.get("wpending", 0), 0, 0]
    # what the property says about this run (asserted on every real run; a violation breaks the correspondence)
    problems = check_run(cfg, rec, peer, info, events)
    if problems:
        out.append([b"assertion failed on the real run: " + problems[0].encode()])
    info.update(problems=problems, rec=rec, peer=peer, events=events, overlap=bool(tr and (tr.overlap or tr.recv_overlap)))
    return dict(labels=labels, out=out, info=info)


def check_run(cfg, rec, peer, info, events):
    problems = []
    if info["deadlock"]:
        problems.append("deadlock: the event loop would block forever (handshake or transfer did not complete)")
    tr = info.get("tr")
    expected_in = b"".join(_plain(n, b"P%d" % i) for i, n in enumerate(cfg["peer_writes"]))
    got = bytes(info["got"])
    if got != expected_in[: len(got)]:
        problems.append("plaintext read by the transport is not a prefix of the plaintext written by the peer")
    failing = cfg.get("fail_send_at") is not None
    if not failing and not info["deadlock"] and got != expected_in:
        problems.append("the transport did not receive the peer's whole plaintext")
    sent = bytes(info["sent_plain"])
    peer_got = bytes(peer.plain_in)
    all_writes = b"".join(_plain(n, b"T%d.%d" % (i, j)) for i, w in enumerate(cfg["writes"])
                          for j, n in enumerate(list(w) if isinstance(w, (list, tuple)) else [w]))
    if peer_got != all_writes[: len(peer_got)]:
        problems.append("plaintext read by the peer is not a prefix of the plaintext written through the transport")
    if not failing and not info["deadlock"] and peer_got != sent:
        problems.append("the peer did not receive exactly the plaintext of the completed send calls")
    if not failing and not info["deadlock"] and "peer_got_at_end" in info and info["peer_got_at_end"] != sent:
        problems.append("send_all returned although its plaintext had not reached the peer (ciphertext left in the outgoing BIO)")
    if MARKER in bytes(rec.cipher_out):
        problems.append("plaintext marker found in the bytes handed to the wrapped transport (sent unencrypted)")
    if any(ev[0] == "send" and not ev[3] for ev in events):
        problems.append("a send_all payload is not what write_bio.read() returned")
    if bytes(rec.cipher_out) != bytes(rec.bio_out)[: len(rec.cipher_out)]:
        problems.append("bytes handed to the wrapped transport differ from the bytes read from the outgoing BIO")
    if tr is not None and (tr.overlap or tr.recv_overlap):
        problems.append("two send_all (or two recv_into) calls on the wrapped transport overlapped")
    return problems


def _cfg_sx(cfg):
    return [cfg["ver"], int(cfg["client"]), [list(w) if isinstance(w, (list, tuple)) else [w] for w in cfg["writes"]],
            list(cfg["peer_writes"]), cfg["frag"], cfg["yields"], cfg["seed"], cfg["recv_size"], int(cfg.get("into", 0)),
            -1 if cfg.get("fail_send_at") is None else cfg["fail_send_at"], int(cfg.get("frag_hs", 1))]


def _sx_cfg(f):
    f = list(f)
    return dict(ver=f[0], client=f[1], writes=[w[0] if len(w) == 1 else list(w) for w in f[2]], peer_writes=list(f[3]),
                frag=f[4], yields=f[5], seed=f[6], recv_size=f[7], into=f[8], fail_send_at=None if f[9] < 0 else f[9],
                frag_hs=f[10] if len(f) > 10 else 1)


def _build(cfg):
    r = run_duplex(cfg)
    inp = sx.norm([r["labels"], _cfg_sx(cfg)])
    out = sx.norm(r["out"])
    _MEMO[sx.to_text(inp)] = out
    return inp, out, r["info"]


def run_impl(inp):
    key = sx.to_text(sx.norm(inp))
    if key in _MEMO:
        return _MEMO[key]
    inp2, out, _info = _build(_sx_cfg(inp[-1]))
    if sx.norm(inp2[0]) != sx.norm(inp[0]):
        return out + [[b"recorded trace differs from this run"]]
    return out


def _alternations(events):
    seq = [ev[1] for ev in events if ev[0] in ("ssl", "send", "recv", "sent", "rcvd") and ev[1] != 0]
    # ops of the writer have MWrite, of the reader MRead; alternate = change of op id parity is not reliable, so use op kinds
    return seq


def _case(cfg, tags):
    inp, out, info = _build(cfg)
    kinds = {}
    for ev in info["events"]:
        if ev[0] == "op":
            kinds[ev[1]] = ev[2]
    seq = [kinds.get(ev[1]) for ev in info["events"] if ev[0] in ("ssl", "send", "recv", "sent", "rcvd") and kinds.get(ev[1]) in (K.M_READ, K.M_WRITE)]
    alt = sum(1 for a, b in zip(seq, seq[1:]) if a != b)
    nontrivial = alt >= 3 or cfg["frag"] != 0 or cfg.get("fail_send_at") is not None
    t = list(tags) + [f"tls1.{cfg['ver'] - 10}", "client" if cfg["client"] else "server",
                      {0: "frag-none", 1: "frag1", 2: "frag2", 7: "frag7", -1: "frag-random"}[cfg["frag"]],
                      "interleaved>=3" if alt >= 3 else "interleaved<3",
                      "big-write" if any((sum(w) if isinstance(w, (list, tuple)) else w) > 16384 for w in cfg["writes"]) else "small-write"]
    return dict(input=inp, tags=t, nontrivial=nontrivial)


SIZES_SMALL = [1, 2, 7, 100, 1000]
SIZES_BIG = [16383, 16384, 16385, 32768, 49152]


def cases(tier, rng, escalate):
    """All cases, ordered so that every block of 400 (one coqc shard) carries a similar share of the long traces."""
    thorough = tier == "thorough" or escalate
    cap = 12000 if thorough else 2500          # labels per case (longer traces are left to the other families)
    allc = [c for c in _gen(thorough, rng) if len(c["input"][0]) <= cap]
    allc.sort(key=lambda c: -len(c["input"][0]))
    nb = max(1, -(-len(allc) // 400))
    buckets = [allc[b::nb] for b in range(nb)]
    out = []
    for b in buckets:
        rng.shuffle(b)
    # blocks must be exactly 400 long (except the last) for the shard boundaries to fall between buckets
    flat = [c for b in buckets for c in b]
    sizes = [len(b) for b in buckets]
    if len(set(sizes[:-1])) <= 1 and all(x == 400 for x in sizes[:-1]):
        return flat
    # uneven: deal round-robin so that any window of 400 is a fair sample
    out = []
    for i in range(max(sizes)):
        for b in buckets:
            if i < len(b):
                out.append(b[i])
    return out


def _gen(thorough, rng):
    seed = rng.randrange(1 << 30)
    n = 0
    for ver in (13, 12):
        for client in (1, 0):
            # small scope, enumerated: tiny writes both ways x fragmentation after the handshake x suspension budgets
            for writes in ([1], [2], [1, 1], [[1, 2]]):
                for peer_writes in ([1], [3], [2, 2]):
                    for frag in (0, 1, 2):
                        for yields in (0, 1, 2, 3):
                            for rep in range(2 if thorough else 1):
                                n += 1
                                cfg = dict(ver=ver, client=client, writes=writes, peer_writes=peer_writes, frag=frag,
                                           yields=yields, seed=seed + n, recv_size=1 + (n % 3), into=n % 2, frag_hs=0)
                                yield _case(cfg, ["small-scope"])
            # every write size, alone, every fragmentation that is affordable for it
            for size in SIZES_SMALL + SIZES_BIG:
                small = size <= 1000 and (thorough or not client or size <= 7)
                for frag in ((0, 1, 2, 7, -1) if small else (0, 7, -1) if thorough or size <= 1000 else (0, -1)):
                    n += 1
                    cfg = dict(ver=ver, client=client, writes=[size], peer_writes=[size if size <= 1000 else 3000], frag=frag,
                               yields=2, seed=seed + n, recv_size=rng.choice([1, 10, 100, 4096, 65536]), into=n % 2)
                    yield _case(cfg, ["single-write"])
            # several calls each way, full duplex, seeded interleavings
            for k in range(120 if thorough else 40):
                n += 1
                writes = [rng.choice(SIZES_SMALL + [rng.randint(1, 3000)]) for _ in range(rng.randint(1, 5))]
                if rng.random() < 0.3:
                    writes[rng.randrange(len(writes))] = [rng.randint(1, 50) for _ in range(rng.randint(2, 4))]
                if rng.random() < 0.25:
                    writes.append(rng.choice(SIZES_BIG))
                peer_writes = [rng.choice(SIZES_SMALL + [rng.randint(1, 3000)]) for _ in range(rng.randint(1, 5))]
                if rng.random() < 0.2:
                    peer_writes.append(rng.choice(SIZES_BIG))
                big = sum(peer_writes) > 5000
                cfg = dict(ver=ver, client=client, writes=writes, peer_writes=peer_writes,
                           frag=rng.choice([0, 7, -1] if big or (client and not thorough) else [0, 1, 2, 7, -1]), yields=rng.choice([0, 1, 2, 4]),
                           seed=seed + n, recv_size=rng.choice([1, 3, 64, 1000, 16384, 65536]) if not big else rng.choice([1000, 16384, 65536]),
                           into=rng.randint(0, 1), frag_hs=int(thorough or k % 4 == 0))
                yield _case(cfg, ["full-duplex"])
            # a send_all of the wrapped transport fails (during the handshake or later)
            for at in (0, 1, 2, 3):
                n += 1
                cfg = dict(ver=ver, client=client, writes=[10, 20], peer_writes=[30], frag=0, yields=1, seed=seed + n,
                           recv_size=100, into=0, fail_send_at=at)
                yield _case(cfg, ["send-fails"])


def oracle(inp):
    cfg = _sx_cfg(inp[-1])
    r = run_duplex(cfg)
    problems = r["info"]["problems"]
    return problems[0] if problems else None


def signature(inp, failure):
    return failure.split(":")[0][:60]


def shrink(inp):
    cfg = _sx_cfg(inp[-1])
    if len(cfg["writes"]) > 1:
        for i in range(len(cfg["writes"])):
            c = dict(cfg, writes=cfg["writes"][:i] + cfg["writes"][i + 1:])
            yield _build(c)[0]
    if len(cfg["peer_writes"]) > 1:
        for i in range(len(cfg["peer_writes"])):
            c = dict(cfg, peer_writes=cfg["peer_writes"][:i] + cfg["peer_writes"][i + 1:])
            yield _build(c)[0]
    if cfg["yields"]:
        yield _build(dict(cfg, yields=0))[0]
    if cfg["frag"]:
        yield _build(dict(cfg, frag=0))[0]
