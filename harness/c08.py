"""C08 — TLS transport is a transparent, encrypted byte stream."""
from __future__ import annotations

import asyncio
import os
import random

import tlskit as K
from common import detloop, runner, sx

PROPERTY_ID = "C08"
RUN_MODULE = "Run.C08"
PROPS_FILE = "Props/C08.v"
ALLOWED_AXIOMS = []
_TLS = "src/easynetwork/lowlevel/api_async/transports/tls.py"
ANCHORS = [
    (_TLS, "AsyncTLSStreamTransport.wrap"),
    (_TLS, "AsyncTLSStreamTransport._retry_ssl_method"),
    (_TLS, "AsyncTLSStreamTransport.__write_all_to_ssl_object"),
    (_TLS, "AsyncTLSStreamTransport.__flush_data_to_send"),
    (_TLS, "AsyncTLSStreamTransport.send_all"),
    (_TLS, "AsyncTLSStreamTransport.send_all_from_iterable"),
    (_TLS, "AsyncTLSStreamTransport.recv"),
    (_TLS, "AsyncTLSStreamTransport.recv_into"),
    (_TLS, "AsyncTLSStreamTransport.__post_init__"),
    (_TLS, "_IncomingDataReader.readinto"),
    (_TLS, "_IncomingDataReader"),            # whole class: where its scratch buffer comes from matters (seeded C08-r3-3)
]
RULE = ("real AsyncTLSStreamTransport (client and server role, TLS 1.2 and 1.3, real OpenSSL) over an in-memory "
        "transport; peer = independent stdlib ssl.SSLObject; after the handshake a writer task (send_all / "
        "send_all_from_iterable, sizes 1 B .. 3 records, several calls) and a reader task (recv / recv_into until the "
        "peer's whole plaintext has arrived) run concurrently; ciphertext from the peer is delivered in fragments of "
        "1, 2, 7, random or unlimited size; every call on the wrapped transport suspends for a seeded number of loop "
        "iterations (interleavings); optional failure of the k-th send_all.  Every SSL-object call (outcome class, "
        "bytes appended to the outgoing BIO), every lock acquisition and every transport answer is recorded per task "
        "in global order and replayed through the model, which must emit the same send_all/recv_into/BIO actions and "
        "results.  Non-trivial = reader and writer events alternate at least three times, or the ciphertext is "
        "fragmented inside records, or a send fails.")
TRUSTED = [
    "model of _retry_ssl_method/__write_all_to_ssl_object/readinto hand-written in coq/Conc/TlsPump.v",
    "ideal record layer coq/Conc/IdealTls.v stands for OpenSSL in the transparency theorems; on the real runs "
    "end-to-end plaintext equality and absence of the plaintext marker from all ciphertext are asserted instead",
    "asyncio.Lock as fair lock: acquisition of a free lock does not suspend (CPython 3.12.1)",
]
ASSUMPTIONS = [
    "one writer at a time on the TLS transport (the endpoint layer serialises senders, property C12)",
    "the wrapped transport's send_all delivers all bytes in order; recv_into returns a non-empty prefix of what is in flight",
]

# ------------------------------------------------------------------ params(): harness/tlsparams.py
# The three switches of the pump model (f_recheck, f_skiplock, f_close_flush) are obtained by a reader of the source
# (tolerant to harmless refactorings) AND by behavioural probes on the real transport; see harness/tlsparams.py.

def _refresh_c09_params():
    """coq/Run/C08.v uses the blocking model of Conc/TlsEof.v, which reads Gen/ParamsC09.v: keep it in step."""
    import c09
    from common import coqrun
    text = "(* REGENERATED from /repo on every run by harness/c09.py -- do not edit *)\n" + c09.params_text()
    path = os.path.join(coqrun.COQ, "Gen", "ParamsC09.v")
    with coqrun.build_lock():
        old = open(path).read() if os.path.exists(path) else None
        if old != text:
            with open(path, "w") as fh:
                fh.write(text)


def params():
    _refresh_c09_params()
    return params_text()


def params_text():
    import tlsparams
    return tlsparams.c08_text()


def extra(ctx):
    import tlsparams
    return dict(parameters_obtained_by=tlsparams.provenance(("f_recheck", "f_skiplock", "f_close_flush", "f_lazyread")))


MARKER = b"<<PLAINTEXT-MARKER-C08>>"
OP_SEND, OP_RECV = 3, 1
_MEMO = {}


def _plain(n, tag):
    base = MARKER + tag
    return (base * (n // len(base) + 1))[:n]


def _exc_code(exc):
    if isinstance(exc, asyncio.CancelledError):
        return 12
    if isinstance(exc, TimeoutError):
        return 11
    return K.classify(exc)


def run_duplex(cfg):
    from easynetwork.lowlevel.api_async.transports.tls import AsyncTLSStreamTransport

    rec = K.Recorder()
    rng = random.Random(cfg["seed"])
    ver, client = cfg["ver"], bool(cfg["client"])
    peer_writes = list(cfg["peer_writes"])
    peer_plain = [_plain(n, b"P%d" % i) for i, n in enumerate(peer_writes)]
    script = [("write", d) for d in peer_plain]
    if client:
        peer = K.Peer(K.server_ctx(ver), True, script)
        ctx = K.RecContext(K.client_ctx(ver), rec)
    else:
        peer = K.Peer(K.client_ctx(ver), False, script)
        ctx = K.RecContext(K.server_ctx(ver), rec)
    peer.lazy = True
    peer.reply_close = True
    frag = cfg["frag"]
    maxy = cfg["yields"]
    info = dict(deadlock=False, results={}, got=bytearray(), sent_plain=bytearray())

    def frags(avail):
        if not cfg.get("frag_hs", 1) and "t" not in info:
            return avail                      # fragmentation starts after the handshake
        if frag == -1:
            return rng.choice([1, 2, 3, 5, 7, 64, 500, 5000, 20000] if avail < 400 else [64, 500, 5000, 20000, 3, 100])
        return frag

    async def main():
        rec.name_task(0)
        backend = K.RecBackend(K.new_backend(), rec)
        tr = K.MemTransport(rec, peer, backend, frags=frags if frag else None,
                            send_yields=(lambda: rng.randint(0, maxy)) if maxy else 0,
                            recv_yields=(lambda: rng.randint(0, maxy)) if maxy else 0,
                            send_fail_at=cfg.get("fail_send_at"))
        tr.peer_silent_eof = True
        info["tr"] = tr
        if not client:
            tr.stream += peer.pump()

        def res(op, kind, v):
            info["results"][op] = [kind, v]

        op = rec.begin_op(K.M_HANDSHAKE, 0, [])
        try:
            with K.patched_ssl_module(rec):
                t = await AsyncTLSStreamTransport.wrap(tr, ctx, server_side=not client,
                                                       server_hostname="localhost" if client else None)
        except BaseException as exc:
            res(op, 1, _exc_code(exc))
            return
        res(op, 0, 0)
        info["t"] = t

        async def writer():
            for i, w in enumerate(cfg["writes"]):
                sizes = list(w) if isinstance(w, (list, tuple)) else [w]
                datas = [_plain(n, b"T%d.%d" % (i, j)) for j, n in enumerate(sizes)]
                op = rec.begin_op(K.M_WRITE, 0, sizes)
                try:
                    if len(datas) == 1:
                        await t.send_all(datas[0])
                    else:
                        await t.send_all_from_iterable(datas)
                    res(op, 0, 0)
                    info["sent_plain"] += b"".join(datas)
                except BaseException as exc:
                    res(op, 1, _exc_code(exc))
                    return

        async def reader():
            want = sum(peer_writes)
            n = cfg["recv_size"]
            while len(info["got"]) < want:
                op = rec.begin_op(K.M_READ, n, [])
                try:
                    if cfg.get("into"):
                        buf = bytearray(n)
                        k = await t.recv_into(buf)
                        d = bytes(buf[:k])
                    else:
                        d = await t.recv(n)
                    res(op, 0, len(d))
                except BaseException as exc:
                    res(op, 1, _exc_code(exc))
                    return
                if not d:
                    return
                info["got"] += d

        await asyncio.gather(writer(), reader())
        info["events_end"] = len(rec.events)
        info["wpending"] = t._write_bio.pending
        info["peer_got_at_end"] = bytes(peer.plain_in)
        try:
            await t.aclose()
        except BaseException:
            pass

    try:
        detloop.run(main())
    except detloop.DeadlockError:
        info["deadlock"] = True
    events = rec.events[: info.get("events_end", len(rec.events))]
    labels, obs, results = _events_to_trace(events, info["results"])
    tr = info.get("tr")
    out = [obs, results, info.get("wpending", 0), 0, 0]
    # what the property says about this run (asserted on every real run; a violation breaks the correspondence)
    problems = check_run(cfg, rec, peer, info, events)
    if problems:
        out.append([b"assertion failed on the real run: " + problems[0].encode()])
    info.update(problems=problems, rec=rec, peer=peer, events=events, overlap=bool(tr and (tr.overlap or tr.recv_overlap)))
    return dict(labels=labels, out=out, info=info)


def _events_to_trace(events, results):
    labels, obs, nops = [], [], 0
    for ev in events:
        k = ev[0]
        if k == "op":
            labels.append([0, ev[2], ev[3], list(ev[4])])
            nops += 1
        elif k == "ssl":
            _, tid, m, arg, code, val, wd = ev
            labels.append([1, tid, 0, m, arg, code, val, wd])
        elif k == "acq":
            labels.append([1, ev[1], 1])
        elif k == "send":
            obs.append([ev[1], 0, ev[2]])
        elif k == "sent":
            labels.append([1, ev[1], 2, 2 if ev[2] else 3, 0])
        elif k == "recv":
            obs.append([ev[1], 1, 0])
        elif k == "rcvd":
            labels.append([1, ev[1], 2, 1, 0] if ev[2] < 0 else [1, ev[1], 2, 0, ev[2]])
        elif k == "feed":
            obs.append([ev[1], 2, ev[2]])
        elif k == "reof":
            obs.append([ev[1], 3, 0])
        elif k == "weof":
            obs.append([ev[1], 4, 0])
        elif k == "cancel":
            labels.append([1, ev[1], 2, 5, 0])
    return labels, obs, [results.get(i, [9, 9]) for i in range(nops)]


def current_flag():
    """State of the fixes in the tree under test: f_recheck + 2 * f_skiplock + 4 * f_lazyread."""
    try:
        t = params_text()
    except runner.TranslateError:
        return -1                # shape not recognised (the check reports that separately): no recorded state applies
    return int("f_recheck := true" in t) + 2 * int("f_skiplock := true" in t) + 4 * int("f_lazyread := true" in t)


def run_two_readers(cfg):
    """Two concurrent recv() on one transport; the peer's two records arrive in ONE recv_into of the first reader.
    The second reader must get its record without any further byte from the network (the connection stays open and
    silent).  Known finding lost-wakeup-after-recv-lock on the unpatched tree."""
    from easynetwork.lowlevel.api_async.transports.tls import AsyncTLSStreamTransport

    rec = K.Recorder()
    ver, client = cfg["ver"], bool(cfg["client"])
    if client:
        peer = K.Peer(K.server_ctx(ver), True, [])
        ctx = K.RecContext(K.client_ctx(ver), rec)
    else:
        peer = K.Peer(K.client_ctx(ver), False, [])
        ctx = K.RecContext(K.server_ctx(ver), rec)
    info = dict(results={}, lens={}, pending=0, deadlock=False)

    async def main():
        rec.name_task(0)
        tr = K.MemTransport(rec, peer, K.RecBackend(K.new_backend(), rec))
        tr.peer_silent_eof = False
        if not client:
            tr.stream += peer.pump()
        op = rec.begin_op(K.M_HANDSHAKE, 0, [])
        with K.patched_ssl_module(rec):
            t = await AsyncTLSStreamTransport.wrap(tr, ctx, server_side=not client,
                                                   server_hostname="localhost" if client else None)
        info["results"][op] = [0, 0]

        async def reader(name):
            op = rec.begin_op(K.M_READ, 100, [])
            try:
                d = await t.recv(100)
                info["results"][op] = [0, len(d)]
                info["lens"][name] = len(d)
            except BaseException as exc:
                info["results"][op] = [1, _exc_code(exc)]
                raise

        r1 = asyncio.ensure_future(reader("r1"))
        r2 = asyncio.ensure_future(reader("r2"))
        for _ in range(8):
            await asyncio.sleep(0)
        peer.obj.write(_plain(5, b"P0"))
        peer.obj.write(_plain(6, b"P1"))
        tr.stream += peer.out.read()
        tr.data_event.set()
        _done, pending = await asyncio.wait([r1, r2], timeout=100)
        info["pending"] = len(pending)
        for p_ in pending:
            p_.cancel()
        await asyncio.gather(r1, r2, return_exceptions=True)
        info["events_end"] = len(rec.events)
        info["wpending"] = t._write_bio.pending
        tr.peer_silent_eof = True
        try:
            await t.aclose()
        except BaseException:
            pass

    try:
        detloop.run(main())
    except detloop.DeadlockError:
        info["deadlock"] = True
    events = rec.events[: info.get("events_end", len(rec.events))]
    labels, obs, results = _events_to_trace(events, info["results"])
    problems = []
    if info["pending"] or info["deadlock"]:
        problems.append("lost wakeup after waiting for the recv lock: a recv() stayed blocked for 100 s although its "
                        "record had already been fed into the incoming BIO by the other reader")
    elif sorted(info["lens"].values()) != [5, 6]:
        problems.append("two concurrent recv() did not return the two records")
    info.update(problems=problems, events=events)
    return dict(labels=labels, out=[obs, results, info.get("wpending", 0), 0, 0], info=info)


def run_sync_duplex(cfg):
    """Blocking SSLStreamTransport over a socketpair, full duplex: a sender thread and a receiver thread on ONE transport,
    the peer (independent ssl.SSLObject) behind a relay thread that throttles its ciphertext into fragments.  Every join
    has a watchdog.  Returns per-thread (ops, raw SSL answers) and results."""
    import select
    import socket
    import threading

    from easynetwork.lowlevel.api_sync.transports.socket import SSLStreamTransport

    rng = random.Random(cfg["seed"])
    ver, client, frag = cfg["ver"], bool(cfg["client"]), cfg["frag"]
    peer_plain = [_plain(n, b"P%d" % i) for i, n in enumerate(cfg["peer_writes"])]
    script = [("write", d) for d in peer_plain]
    log, tags = [], {}
    if client:
        peer = K.Peer(K.server_ctx(ver), True, script)
        ctx = K.ThreadRawRecContext(K.client_ctx(ver), log, tags)
    else:
        peer = K.Peer(K.client_ctx(ver), False, script)
        ctx = K.ThreadRawRecContext(K.server_ctx(ver), log, tags)
    peer.lazy = True
    a, b = socket.socketpair()
    b.setblocking(False)
    stop = threading.Event()
    state = dict(err=None, wire=bytearray())

    def relay():
        pending = bytearray(peer.pump())
        try:
            while not stop.is_set():
                want_w = bool(pending)
                r, w, _ = select.select([b], [b] if want_w else [], [], 0.02)
                if r:
                    try:
                        data = b.recv(65536)
                    except BlockingIOError:
                        data = None
                    if data == b"":
                        break
                    if data:
                        state["wire"] += data
                        peer.feed(data)
                        pending += peer.pump()
                if not pending:
                    pending += peer.pump()          # the peer speaks on its own (next scripted write)
                if pending and w:
                    n = frag if frag > 0 else rng.choice([1, 3, 17, 500, 4000]) if frag < 0 else len(pending)
                    try:
                        k = b.send(bytes(pending[:n]))
                    except BlockingIOError:
                        k = 0
                    del pending[:k]
        except OSError as exc:
            state["err"] = repr(exc)

    th = threading.Thread(target=relay, daemon=True)
    th.start()
    tmo = 300.0          # never reached unless something is really stuck (loaded machines included)
    results = {0: [], 1: [], 2: []}
    ops = {0: [], 1: [], 2: []}
    info = dict(got=bytearray(), sent_plain=bytearray(), stuck=False)
    tags[threading.get_ident()] = 0
    t = None
    ops[0].append([0, 0])
    try:
        t = SSLStreamTransport(a, ctx, 1.0, server_side=not client, server_hostname="localhost" if client else None,
                               standard_compatible=True, handshake_timeout=tmo, shutdown_timeout=0.2)   # the final close is outside the recorded trace
        results[0].append([1, 0, 0])
    except BaseException as exc:
        results[0].append([1, 1, _exc_code(exc)])

    def sender():
        tags[threading.get_ident()] = 1
        for i, n in enumerate(cfg["writes"]):
            data = _plain(n, b"T%d.0" % i)
            view = memoryview(data)
            while view:
                ops[1].append([3, [len(view)]])
                try:
                    k = t.send(view, tmo)
                    results[1].append([1, 0, k])
                except BaseException as exc:
                    results[1].append([1, 1, _exc_code(exc)])
                    return
                view = view[k:]
            info["sent_plain"] += data

    def receiver():
        tags[threading.get_ident()] = 2
        want = sum(cfg["peer_writes"])
        n = cfg["recv_size"]
        while len(info["got"]) < want:
            ops[2].append([2 if cfg.get("into") else 1, n])
            try:
                if cfg.get("into"):
                    buf = bytearray(n)
                    k = t.recv_into(buf, tmo)
                    d = bytes(buf[:k])
                else:
                    d = t.recv(n, tmo)
                results[2].append([1, 0, len(d)])
            except BaseException as exc:
                results[2].append([1, 1, _exc_code(exc)])
                return
            if not d:
                return
            info["got"] += d

    if t is not None:
        ts = [threading.Thread(target=sender, daemon=True), threading.Thread(target=receiver, daemon=True)]
        for x in ts:
            x.start()
        for x in ts:
            x.join(600)                      # watchdog
            if x.is_alive():
                info["stuck"] = True
    # let the relay drain what the transport sent
    import time as _time
    deadline = _time.monotonic() + 180.0
    while not info["stuck"] and bytes(peer.plain_in) != bytes(info["sent_plain"]) and _time.monotonic() < deadline:
        threading.Event().wait(0.01)
    answers = {0: [], 1: [], 2: []}
    for tag, m, code, val in list(log):
        answers[tag].append([m, code, val])
    stop.set()
    th.join(180)
    if t is not None and not info["stuck"]:
        try:
            t.close()
        except BaseException:
            pass
    for s_ in (a, b):
        try:
            s_.close()
        except OSError:
            pass
    problems = []
    if info["stuck"] or th.is_alive():
        problems.append("deadlock: a thread of the blocking full-duplex run did not finish (watchdog)")
    expected_in = b"".join(peer_plain)
    if bytes(info["got"]) != expected_in:
        problems.append("blocking transport: plaintext read is not the plaintext written by the peer")
    all_writes = b"".join(_plain(n, b"T%d.0" % i) for i, n in enumerate(cfg["writes"]))
    if bytes(peer.plain_in) != all_writes:
        problems.append("blocking transport: plaintext read by the peer is not the plaintext written through the transport")
    if MARKER in bytes(state["wire"]):
        problems.append("blocking transport: plaintext marker found on the wire")
    threads = [[ops[i], answers[i]] for i in (0, 1, 2)]
    out = [[results[i] for i in (0, 1, 2)]]
    if problems:
        out.append([b"assertion failed on the real run: " + problems[0].encode()])
    info.update(problems=problems, err=state["err"])
    return dict(threads=threads, out=out, info=info)


SCENARIOS = {
    # request/response: the reader is already waiting when the request is written; the peer answers only what it got
    "echo": [("recv", "r", 100), ("steps", 6), ("send", "w", [10]), ("join", "r"), ("join", "w")],
    "echo-2": [("recv", "r", 100), ("steps", 3), ("send", "w", [3, 4]), ("join", "r"), ("join", "w"),
               ("recv", "r2", 100), ("send", "w2", [300]), ("join", "r2"), ("join", "w2")],
    # a send_all queued behind a parked one is abandoned (cancelled); the stream must stay intact for later writes
    "abandoned-send": [("gate", 0), ("send", "w1", [40]), ("steps", 6), ("send", "w2", [50]), ("steps", 6), ("cancel", "w2"),
                       ("steps", 4), ("gate", 1), ("join", "w1"), ("send", "w3", [60]), ("join", "w3")],
    # a second send_all is issued while the first one is parked by back-pressure: once both have returned, both are at the peer
    "second-send-behind-parked-send": [("gate", 0), ("send", "w1", [40]), ("steps", 6), ("send", "w2", [50]), ("steps", 6),
                                       ("gate", 1), ("join", "w1"), ("join", "w2")],
    # data is already in flight towards us while our own send_all is parked by back-pressure
    "backpressure-read": [("peer_write", 100), ("gate", 0), ("send", "w", [10]), ("steps", 6), ("recv", "r", 100),
                          ("join", "r"), ("gate", 1), ("join", "w")],
    # a recv() that has already decrypted its bytes is cancelled while it queues on the send lock
    "cancel-after-read": [("peer_write", 30), ("recv", "r0", 5), ("join", "r0"), ("gate", 0), ("send", "w", [10]), ("steps", 6),
                          ("recv", "r1", 5), ("steps", 6), ("cancel", "r1"), ("steps", 4), ("gate", 1), ("join", "w"),
                          ("recv", "r2", 5), ("join", "r2")],
}
def _sc_cancel_sweep(params):
    """recv() cancelled at its k-th resumption, whatever it is parked on; the following recv() calls must continue the
    stream without a hole.  params = [k, frag, data_first, writer]"""
    k, frag, data_first, writer = params
    pre = [("peer_write", 100), ("peer_write", 50)]
    script = (pre if data_first else []) + ([("send", "w", [10])] if writer else []) + [("recv_cancel", "r0", 200, k), ("steps", 3)] \
        + ([] if data_first else pre) + [("join", "r0"), ("drain", 150)] + ([("join", "w")] if writer else [])
    return dict(frag=frag, recv_yields=1), script


def _sc_cancel_read_pending_bio(params):
    """a recv() whose bytes are already decrypted in the SSL object is issued while a send_all is parked by back-pressure
    (holding the send lock) and a second send_all queues behind it (its records are pending in the outgoing BIO); the
    recv() is cancelled at its k-th resumption (k = 0: not cancelled).  Whatever k, the completed recv() calls must
    return the peer's bytes without a hole.  params = [k]"""
    k = params[0]
    return dict(), [("peer_write", 30), ("recv", "r0", 5), ("join", "r0"), ("gate", 0), ("send", "w1", [40]), ("steps", 6),
                    ("send", "w2", [50]), ("steps", 6), ("recv_cancel", "r1", 5, k), ("steps", 6), ("gate", 1),
                    ("join", "w1"), ("join", "w2"), ("join", "r1"), ("drain", 30)]


def _sc_pha(params):
    """TLS 1.3 post-handshake client authentication: ssl_object.read() itself WRITES a protocol answer (Certificate /
    CertificateVerify / Finished, about 1.2 KiB) into the outgoing BIO.  params = [with_data, k]:
    with_data = 0: the CertificateRequest arrives alone: read() -> WANT_READ with the answer pending;
    with_data = 1: it arrives in the same flight as an application record: read() -> plaintext AND the answer pending.
    The peer only sends its next message once it has seen the certificate; the transport side only ever calls recv()
    (the first recv() is cancelled at its k-th resumption -- k beyond its last one: never -- then recv() is called again
    until everything the peer wrote has been returned)."""
    with_data, k = params
    if with_data:
        script = [("peer_write_when_cert", 20), ("peer_pha", 26), ("recv_cancel", "r1", 100, k), ("steps", 12), ("join", "r1"),
                  ("drain", 46)]
    else:
        script = [("peer_write_when_cert", 20), ("recv_cancel", "r1", 100, k), ("steps", 4), ("peer_pha", 0), ("steps", 12),
                  ("join", "r1"), ("drain", 20)]
    return dict(pha=1, recv_yields=1), script


def _sc_two_writers(params):
    """two tasks call send_all concurrently over a wrapped transport whose send_all is NOT atomic (pieces + yields).
    params = [piece, yields, n1, n2, size...]"""
    piece, yields, n1, n2 = params[:4]
    sizes = list(params[4:])
    a, b = sizes[:n1], sizes[n1:n1 + n2]
    return dict(send_pieces=piece, send_yields=yields), [("send_seq", "w1", a), ("send_seq", "w2", b), ("join", "w1"), ("join", "w2")]


def _sc_big_write(params):
    """one send_all larger than the incoming-reader buffer / one BIO chunk (256 KiB); echo = request/reply.
    params = [size, echo]"""
    size, echo = params
    if echo:
        return dict(echo=1), [("send", "w", [size]), ("drain", size), ("join", "w")]
    return dict(), [("send", "w", [size]), ("join", "w")]


SCENARIOS["cancel-sweep"] = _sc_cancel_sweep
SCENARIOS["two-writers"] = _sc_two_writers
SCENARIOS["big-write"] = _sc_big_write
SCENARIOS["cancel-read-pending-bio"] = _sc_cancel_read_pending_bio
SCENARIOS["pha"] = _sc_pha
# two tasks in the WANT_READ path; the second one has ciphertext to flush and queues on the send lock behind a send_all
# parked by back-pressure; meanwhile the first one feeds the SSL object with TWO records and returns the first: when the
# second task finally gets to the recv lock its record is already decrypted-able: it must retry the SSL call, not read
SCENARIOS["feed-during-flush"] = [
    ("recv", "r1", 5), ("steps", 4), ("gate", 0), ("send", "w1", [40]), ("steps", 6), ("send", "w2", [50]), ("steps", 6),
    ("recv", "r2", 5), ("steps", 6), ("peer_write", 5), ("peer_write", 5), ("steps", 8), ("join", "r1"), ("gate", 1),
    ("join", "w1"), ("join", "w2"), ("join", "r2")]

# codes are part of recorded corpus inputs: never renumber, only append
SCENARIO_CODES = {"echo": 0, "echo-2": 1, "abandoned-send": 2, "backpressure-read": 3, "cancel-after-read": 4,
                  "second-send-behind-parked-send": 5, "cancel-sweep": 6, "two-writers": 7, "big-write": 8,
                  "cancel-read-pending-bio": 9, "pha": 10, "feed-during-flush": 11}
assert set(SCENARIO_CODES) == set(SCENARIOS)
SCENARIO_NAMES = {v: k for k, v in SCENARIO_CODES.items()}
# scenarios that fail on a tree without the corresponding fix: reported through the corpus / known_findings only
KNOWN_SCENARIO_SIGNATURES = {"backpressure-read": "reader-queues-on-send-lock-with-nothing-to-flush",
                             "cancel-after-read": "cancelled-recv-loses-decrypted-plaintext",
                             "cancel-read-pending-bio": "cancelled-recv-loses-plaintext-behind-pending-ciphertext"}
# the bit of current_flag() that makes the scenario pass
SCENARIO_FIX_BIT = {"backpressure-read": 2, "cancel-after-read": 2, "cancel-read-pending-bio": 4}


def run_scenario(cfg):
    """A scripted full-duplex situation (see SCENARIOS) on the real AsyncTLSStreamTransport."""
    from easynetwork.lowlevel.api_async.transports.tls import AsyncTLSStreamTransport

    name = cfg["name"]
    opts = {}
    script = SCENARIOS[name]
    if callable(script):
        opts, script = script(list(cfg.get("params", [])))
    rec = K.Recorder()
    ver, client = cfg["ver"], bool(cfg["client"])
    if opts.get("pha"):
        assert ver == 13 and client, "post-handshake authentication: the transport is the TLS 1.3 client"
        srv, cli = K.pha_ctxs()
        peer = K.Peer(srv, True, [])
        ctx = K.RecContext(cli, rec)
    elif client:
        peer = K.Peer(K.server_ctx(ver), True, [])
        ctx = K.RecContext(K.client_ctx(ver), rec)
    else:
        peer = K.Peer(K.client_ctx(ver), False, [])
        ctx = K.RecContext(K.server_ctx(ver), rec)
    peer.echo = name.startswith("echo") or bool(opts.get("echo"))
    info = dict(results={}, recvd={}, stuck=[], deadlock=False, sent={}, order=[], nsteps={}, send_order=[])
    peer_plain = bytearray()

    async def main():
        rec.name_task(0)
        tr = K.MemTransport(rec, peer, K.RecBackend(K.new_backend(), rec))
        tr.peer_silent_eof = False
        if not client:
            tr.stream += peer.pump()
        op = rec.begin_op(K.M_HANDSHAKE, 0, [])
        with K.patched_ssl_module(rec):
            t = await AsyncTLSStreamTransport.wrap(tr, ctx, server_side=not client,
                                                   server_hostname="localhost" if client else None)
        info["results"][op] = [0, 0]
        tasks = {}
        # options of the wrapped transport apply once the handshake is done
        if opts.get("frag"):
            tr.frags = lambda avail: opts["frag"]
        tr.recv_yields = opts.get("recv_yields", 0)
        tr.send_yields = opts.get("send_yields", 0)
        tr.send_pieces = opts.get("send_pieces", 0)
        drained = bytearray()
        info["drained"] = drained
        watchers = []

        async def do_recv(tag, n):
            op = rec.begin_op(K.M_READ, n, [])
            try:
                d = await t.recv(n)
                info["results"][op] = [0, len(d)]
                info["recvd"][tag] = d
                info["order"].append(tag)
            except BaseException as exc:
                info["results"][op] = [1, _exc_code(exc)]
                raise

        async def do_send(tag, sizes):
            datas = [_plain(n, b"T" + tag.encode() + b".%d" % j) for j, n in enumerate(sizes)]
            info["sent"][tag] = b"".join(datas)
            info["send_order"].append(tag)
            op = rec.begin_op(K.M_WRITE, 0, sizes)
            try:
                if len(datas) == 1:
                    await t.send_all(datas[0])
                else:
                    await t.send_all_from_iterable(datas)
                info["results"][op] = [0, 0]
                info["order"].append(tag)
            except BaseException as exc:
                info["results"][op] = [1, _exc_code(exc)]
                raise

        async def do_send_seq(tag, sizes):
            for j, n in enumerate(sizes):
                await do_send(f"{tag}.{j}", [n])

        for cmd in script:
            what = cmd[0]
            if what == "recv_cancel":
                tasks[cmd[1]] = K.CountingTask(do_recv(cmd[1], cmd[2]), loop=asyncio.get_running_loop(), cancel_at=cmd[3])
                await asyncio.sleep(0)
            elif what == "send_seq":
                tasks[cmd[1]] = asyncio.ensure_future(do_send_seq(cmd[1], cmd[2]))
                await asyncio.sleep(0)
            elif what == "drain":
                # sequential recv() calls until cmd[1] bytes have been returned in total (bounded)
                total = sum(len(v) for v in info["recvd"].values())
                for j in range(400):
                    if total >= cmd[1]:
                        break
                    tag = f"d{j}"
                    tasks[tag] = asyncio.ensure_future(do_recv(tag, 65536))
                    for _ in range(400):
                        if tasks[tag].done():
                            break
                        await asyncio.sleep(0)
                    else:
                        info["stuck"].append(tag)
                        break
                    if tasks[tag].exception() is not None or not info["recvd"].get(tag):
                        break
                    total += len(info["recvd"][tag])
            elif what == "recv":
                tasks[cmd[1]] = asyncio.ensure_future(do_recv(cmd[1], cmd[2]))
                await asyncio.sleep(0)
            elif what == "send":
                tasks[cmd[1]] = asyncio.ensure_future(do_send(cmd[1], cmd[2]))
                await asyncio.sleep(0)
            elif what == "steps":
                for _ in range(cmd[1]):
                    await asyncio.sleep(0)
            elif what == "gate":
                (tr.writable.set if cmd[1] else tr.writable.clear)()
            elif what == "peer_write":
                d = _plain(cmd[1], b"P%d" % len(peer_plain))
                peer_plain.extend(d)
                peer.obj.write(d)
                tr.stream += peer.out.read()
                tr.data_event.set()
            elif what == "peer_pha":
                # the peer (server) asks for the client certificate; with cmd[1] > 0 the request travels with an application record
                peer.obj.verify_client_post_handshake()
                if cmd[1]:
                    d = _plain(cmd[1], b"P%d" % len(peer_plain))
                    peer_plain.extend(d)
                    peer.obj.write(d)
                else:
                    peer.obj.do_handshake()
                tr.stream += peer.out.read()
                tr.data_event.set()
            elif what == "peer_write_when_cert":
                # the peer goes on (writes cmd[1] bytes) as soon as it has seen the certificate, whenever that is
                async def _watch(n=cmd[1]):
                    for _ in range(5000):
                        if peer.obj.getpeercert():
                            d = _plain(n, b"P%d" % len(peer_plain))
                            peer_plain.extend(d)
                            peer.obj.write(d)
                            tr.stream += peer.out.read()
                            tr.data_event.set()
                            return
                        await asyncio.sleep(0)
                watchers.append(asyncio.ensure_future(_watch()))
            elif what == "cancel":
                tasks[cmd[1]].cancel()
            elif what == "join":
                for _ in range(200):
                    if tasks[cmd[1]].done():
                        break
                    await asyncio.sleep(0)
                else:
                    info["stuck"].append(cmd[1])
        info["events_end"] = len(rec.events)
        info["wpending"] = t._write_bio.pending
        # calls still pending here (a recv() waiting for bytes that will never come) are cancelled by the tear-down below:
        # that is not part of the recorded trace
        info["results_end"] = {k_: list(v) for k_, v in info["results"].items()}
        info["locks_end"] = [int(bool(getattr(t, "_AsyncTLSStreamTransport__transport_" + w + "_lock").locked()))
                             for w in ("send", "recv")]
        info["peer_got"] = bytes(peer.plain_in)
        info["peer_cert"] = bool(opts.get("pha")) and bool(peer.obj.getpeercert())
        info["nsteps"] = {k_: v.nsteps for k_, v in tasks.items() if isinstance(v, K.CountingTask)}
        for x in list(tasks.values()) + watchers:
            x.cancel()
        await asyncio.gather(*tasks.values(), *watchers, return_exceptions=True)
        tr.peer_silent_eof = True
        tr.writable.set()
        try:
            await t.aclose()
        except BaseException:
            pass

    try:
        detloop.run(main())
    except detloop.DeadlockError:
        info["deadlock"] = True
    events = rec.events[: info.get("events_end", len(rec.events))]
    labels, obs, results = _events_to_trace(events, info.get("results_end", info["results"]))
    problems = []
    if info["deadlock"]:
        problems.append("deadlock: the event loop would block forever")
    if name == "backpressure-read" and "r" in info["stuck"]:
        problems.append("recv() could not return data already in flight while another task's send_all() was parked by "
                        "back-pressure: the reader queues on the send lock although the outgoing BIO is empty")
    elif name == "cancel-after-read":
        got = b"".join(info["recvd"].get(k, b"") for k in ("r0", "r1", "r2"))
        if got != bytes(peer_plain)[: len(got)]:
            problems.append("plaintext already decrypted by a recv() was lost when that recv() was cancelled while queueing on "
                            "the send lock (nothing to flush): the next recv() skips it")
        elif info["stuck"]:
            problems.append(f"stuck: {info['stuck']} did not complete")
    elif name == "cancel-read-pending-bio":
        got = b"".join(info["recvd"][k_] for k_ in info["order"] if k_ in info["recvd"])
        if got != bytes(peer_plain)[: len(got)] or (not info["stuck"] and got != bytes(peer_plain)):
            problems.append("plaintext already decrypted by a recv() was lost behind pending ciphertext: the recv() was cancelled "
                            "while it queued on the send lock to flush the records of ANOTHER send_all (itself queued behind a "
                            f"send_all parked by back-pressure); the completed recv() calls returned {len(got)} of the "
                            f"{len(peer_plain)} bytes the peer wrote, with a hole")
        elif info["stuck"]:
            problems.append(f"stuck: {info['stuck']} did not complete")
    elif name == "pha":
        got = b"".join(info["recvd"][k_] for k_ in info["order"] if k_ in info["recvd"])
        if not info.get("peer_cert"):
            problems.append("the answer to a post-handshake message (TLS 1.3 client authentication) that ssl_object.read() wrote into "
                            f"the outgoing BIO was never sent although recv() was called again: {info.get('wpending')} bytes are left "
                            "in the BIO, the peer waits for them and the transport waits for the peer")
        elif got != bytes(peer_plain):
            problems.append(f"post-handshake authentication: the completed recv() calls returned {len(got)} of the {len(peer_plain)} "
                            "bytes the peer wrote" + (f" (stuck: {info['stuck']})" if info["stuck"] else ""))
        elif info.get("wpending"):
            problems.append(f"post-handshake authentication: {info.get('wpending')} bytes left in the outgoing BIO at the end")
    elif name == "feed-during-flush":
        if info["stuck"] == ["r2"]:
            problems.append(f"stuck: {info['stuck']}: a recv() went to read the transport although its record had been fed to the SSL "
                            "object (by another recv()) while it was flushing / queueing on the send lock: the feed was not noticed")
        elif info["stuck"]:
            problems.append(f"stuck: {info['stuck']} did not complete (two recv() and two send_all() under back-pressure: the first "
                            "recv() must return its record as soon as it is decrypted, the second one once the back-pressure is gone)")
        elif [bytes(info["recvd"].get(k_, b"")) for k_ in ("r1", "r2")] != [bytes(peer_plain[:5]), bytes(peer_plain[5:10])]:
            problems.append("feed-during-flush: the two recv() calls did not return the two records in order")
    elif name == "cancel-sweep":
        got = b"".join(info["recvd"][k_] for k_ in info["order"] if k_ in info["recvd"])
        if got != bytes(peer_plain):
            problems.append("bytes of the stream were lost (or duplicated) around a cancelled recv(): the completed recv() calls "
                            f"returned {len(got)} of the {len(peer_plain)} bytes the peer wrote"
                            + (" (the following recv() waits forever for them)" if info["stuck"] else ""))
    elif info["stuck"]:
        problems.append(f"stuck: {info['stuck']} did not complete although nothing prevents it "
                        "(request/response or abandoned-send scenario)")
    if name.startswith("echo") and not problems:
        sent = b"".join(info["sent"][k] for k in info["sent"])
        got = b"".join(info["recvd"].get(k, b"") for k in ("r", "r2"))
        if got != sent[: len(got)] or not got:
            problems.append("echoed plaintext is not a prefix of the plaintext written")
    if name == "two-writers" and not problems:
        expected = b"".join(info["sent"][k_] for k_ in info["send_order"])
        if peer.read_error is not None:
            problems.append("two concurrent send_all() over a non-atomic wrapped transport: the peer's TLS layer rejected the stream")
        elif info["peer_got"] != expected:
            problems.append("two concurrent send_all() over a non-atomic wrapped transport: the peer did not decode the plaintext "
                            "of the calls in the order they were issued")
    if name == "big-write" and not problems:
        sent = info["sent"].get("w", b"")
        if info["peer_got"] != sent:
            problems.append("send_all returned although its plaintext had not reached the peer (large write: ciphertext left in "
                            f"the outgoing BIO: {info.get('wpending')} bytes)")
        elif opts.get("echo"):
            got = b"".join(info["recvd"][k_] for k_ in info["order"] if k_ in info["recvd"])
            if got != sent:
                problems.append("request/reply with a large request: the reply was not received completely")
    if name == "second-send-behind-parked-send" and not problems:
        if info["peer_got"] != info["sent"]["w1"] + info["sent"]["w2"]:
            problems.append("send_all returned although its plaintext had not reached the peer (a send_all issued while another "
                            "one was parked by back-pressure left its ciphertext in the outgoing BIO)")
    if name == "abandoned-send" and not problems:
        a_, b_, c_ = (info["sent"][k] for k in ("w1", "w2", "w3"))
        if peer.read_error is not None:
            problems.append("TLS stream damaged after an abandoned send_all(): the peer's TLS layer rejected the stream")
        elif info["peer_got"] not in (a_ + c_, a_ + b_ + c_):
            problems.append("after an abandoned send_all() the peer decrypted neither A+C nor A+B+C")
    if MARKER in bytes(rec.cipher_out):
        problems.append("plaintext marker found in the bytes handed to the wrapped transport (sent unencrypted)")
    info.update(problems=problems, events=events)
    return dict(labels=labels, out=[obs, results, info.get("wpending", 0)] + info.get("locks_end", [0, 0]), info=info)


_MULTI = {}


def run_multi(cfg):
    """n (2 or 3) TLS transports multiplexed on ONE event loop, each with its own peer and its own in-memory transport.
    The wrapped transports deliver like a BufferedProtocol (`deliver_early`): ciphertext is written into the buffer the
    transport passed to recv_into() when it arrives, the waiting task is woken up some loop iterations later -- and the
    ciphertext of ALL connections arrives in the same loop iteration, round after round, while every connection is also
    sending.  Every connection is checked on its own (trace replayed through the model; plaintext equality both ways; the
    peer's TLS layer accepted the stream).  One real run gives n cases (cfg["conn"] selects the connection)."""
    from easynetwork.lowlevel.api_async.transports.tls import AsyncTLSStreamTransport

    n, ver, client, early, seed = cfg["n"], cfg["ver"], bool(cfg["client"]), cfg["early"], cfg["seed"]
    key = (n, ver, client, early, seed, runner.REPO)
    if key not in _MULTI:
        rng = __import__("random").Random(seed)
        rounds = 3
        plan = [dict(peer=[rng.choice([1, 7, 100, 1000, 3000]) for _ in range(rounds)],
                     mine=[rng.choice([1, 7, 100, 1000]) for _ in range(2)], recv_size=rng.choice([64, 4096, 65536])) for _ in range(n)]
        conns = []
        state = dict(deadlock=False)

        async def main():
            for i in range(n):
                rec = K.Recorder()
                rec.name_task(0)
                if client:
                    peer = K.Peer(K.server_ctx(ver), True, [])
                    ctx = K.RecContext(K.client_ctx(ver), rec)
                else:
                    peer = K.Peer(K.client_ctx(ver), False, [])
                    ctx = K.RecContext(K.server_ctx(ver), rec)
                tr = K.MemTransport(rec, peer, K.RecBackend(K.new_backend(), rec))
                tr.peer_silent_eof = False
                if not client:
                    tr.stream += peer.pump()
                c = dict(rec=rec, peer=peer, tr=tr, results={}, got=bytearray(), sent=bytearray(), peer_plain=bytearray(), stuck=[])
                op = rec.begin_op(K.M_HANDSHAKE, 0, [])
                with K.patched_ssl_module(rec):
                    c["t"] = await AsyncTLSStreamTransport.wrap(tr, ctx, server_side=not client,
                                                                 server_hostname="localhost" if client else None)
                c["results"][op] = [0, 0]
                tr.deliver_early = early
                conns.append(c)

            async def reader(i):
                c, want = conns[i], sum(plan[i]["peer"])
                while len(c["got"]) < want:
                    op = c["rec"].begin_op(K.M_READ, plan[i]["recv_size"], [])
                    try:
                        d = await c["t"].recv(plan[i]["recv_size"])
                    except BaseException as exc:
                        c["results"][op] = [1, _exc_code(exc)]
                        raise
                    c["results"][op] = [0, len(d)]
                    if not d:
                        break
                    c["got"] += d

            async def writer(i):
                c = conns[i]
                for j, size in enumerate(plan[i]["mine"]):
                    d = _plain(size, b"T%d.%d" % (i, j))
                    op = c["rec"].begin_op(K.M_WRITE, 0, [size])
                    try:
                        await c["t"].send_all(d)
                    except BaseException as exc:
                        c["results"][op] = [1, _exc_code(exc)]
                        raise
                    c["results"][op] = [0, 0]
                    c["sent"] += d
                    await asyncio.sleep(0)

            tasks = [asyncio.ensure_future(f(i)) for i in range(n) for f in (reader, writer)]
            await asyncio.sleep(0)
            for r in range(rounds):
                # the ciphertext of ALL connections becomes readable in the same loop iteration
                for i, c in enumerate(conns):
                    d = _plain(plan[i]["peer"][r], b"P%d.%d" % (i, r))
                    c["peer_plain"] += d
                    c["peer"].obj.write(d)
                    c["tr"].stream += c["peer"].out.read()
                for c in conns:
                    c["tr"].data_event.set()
                for _ in range(6 + 2 * early):
                    await asyncio.sleep(0)
            for _ in range(400):
                if all(t_.done() for t_ in tasks):
                    break
                await asyncio.sleep(0)
            for i, c in enumerate(conns):
                c["events_end"] = len(c["rec"].events)
                c["wpending"] = c["t"]._write_bio.pending
                c["results_end"] = {k_: list(v) for k_, v in c["results"].items()}
                c["locks_end"] = [int(bool(getattr(c["t"], "_AsyncTLSStreamTransport__transport_" + w + "_lock").locked()))
                                  for w in ("send", "recv")]
                c["stuck"] = [("reader", "writer")[j] for j in (0, 1) if not tasks[2 * i + j].done()]
                c["errors"] = [repr(tasks[2 * i + j].exception()) for j in (0, 1)
                               if tasks[2 * i + j].done() and not tasks[2 * i + j].cancelled() and tasks[2 * i + j].exception() is not None]
                c["peer_got"] = bytes(c["peer"].plain_in)
            for t_ in tasks:
                t_.cancel()
            await asyncio.gather(*tasks, return_exceptions=True)
            for c in conns:
                c["tr"].peer_silent_eof = True
                try:
                    await c["t"].aclose()
                except BaseException:
                    pass

        try:
            detloop.run(main())
        except detloop.DeadlockError:
            state["deadlock"] = True
        res = []
        for i, c in enumerate(conns):
            events = c["rec"].events[: c.get("events_end", len(c["rec"].events))]
            labels, obs, results = _events_to_trace(events, c.get("results_end", c["results"]))
            problems = []
            if state["deadlock"]:
                problems.append("deadlock: the event loop would block forever")
            if c.get("errors"):
                problems.append(f"{n} TLS connections on one event loop: connection {i} failed with {c['errors'][0]} "
                                "(ciphertext of all connections arrives in the same loop iteration)")
            elif bytes(c["got"]) != bytes(c["peer_plain"]):
                problems.append(f"{n} TLS connections on one event loop: connection {i} did not read the plaintext its own peer wrote "
                                f"({len(c['got'])} of {len(c['peer_plain'])} bytes, stuck: {c.get('stuck')})")
            elif c["peer"].read_error is not None:
                problems.append(f"{n} TLS connections on one event loop: the peer of connection {i} rejected the stream")
            elif c.get("peer_got") != bytes(c["sent"]):
                problems.append(f"{n} TLS connections on one event loop: the peer of connection {i} did not read the plaintext written to it")
            elif c.get("stuck"):
                problems.append(f"{n} TLS connections on one event loop: connection {i}: {c['stuck']} did not complete")
            if MARKER in bytes(c["rec"].cipher_out):
                problems.append("plaintext marker found in the bytes handed to the wrapped transport (sent unencrypted)")
            out = [obs, results, c.get("wpending", 0)] + c.get("locks_end", [0, 0])
            res.append(dict(labels=labels, out=out, info=dict(problems=problems, events=events)))
        if len(res) < n:        # a handshake did not complete
            res += [dict(labels=[], out=[[], [], 0, 0, 0], info=dict(problems=["deadlock: a handshake did not complete"], events=[]))] * (n - len(res))
        _MULTI[key] = res
    return _MULTI[key][cfg["conn"]]


def current_state():
    """Which fixes the tree under test has (bit 0: lost-wakeup re-check)."""
    return current_flag()


def check_run(cfg, rec, peer, info, events):
    problems = []
    if info["deadlock"]:
        problems.append("deadlock: the event loop would block forever (handshake or transfer did not complete)")
    tr = info.get("tr")
    expected_in = b"".join(_plain(n, b"P%d" % i) for i, n in enumerate(cfg["peer_writes"]))
    got = bytes(info["got"])
    if got != expected_in[: len(got)]:
        problems.append("plaintext read by the transport is not a prefix of the plaintext written by the peer")
    failing = cfg.get("fail_send_at") is not None
    if not failing and not info["deadlock"] and got != expected_in:
        problems.append("the transport did not receive the peer's whole plaintext")
    sent = bytes(info["sent_plain"])
    peer_got = bytes(peer.plain_in)
    all_writes = b"".join(_plain(n, b"T%d.%d" % (i, j)) for i, w in enumerate(cfg["writes"])
                          for j, n in enumerate(list(w) if isinstance(w, (list, tuple)) else [w]))
    if peer_got != all_writes[: len(peer_got)]:
        problems.append("plaintext read by the peer is not a prefix of the plaintext written through the transport")
    if not failing and not info["deadlock"] and peer_got != sent:
        problems.append("the peer did not receive exactly the plaintext of the completed send calls")
    if not failing and not info["deadlock"] and "peer_got_at_end" in info and info["peer_got_at_end"] != sent:
        problems.append("send_all returned although its plaintext had not reached the peer (ciphertext left in the outgoing BIO)")
    if MARKER in bytes(rec.cipher_out):
        problems.append("plaintext marker found in the bytes handed to the wrapped transport (sent unencrypted)")
    if any(ev[0] == "send" and not ev[3] for ev in events):
        problems.append("a send_all payload is not what write_bio.read() returned")
    if bytes(rec.cipher_out) != bytes(rec.bio_out)[: len(rec.cipher_out)]:
        problems.append("bytes handed to the wrapped transport differ from the bytes read from the outgoing BIO")
    if tr is not None and (tr.overlap or tr.recv_overlap):
        problems.append("two send_all (or two recv_into) calls on the wrapped transport overlapped")
    return problems


def _cfg_sx(cfg):
    return [cfg["ver"], int(cfg["client"]), [list(w) if isinstance(w, (list, tuple)) else [w] for w in cfg["writes"]],
            list(cfg["peer_writes"]), cfg["frag"], cfg["yields"], cfg["seed"], cfg["recv_size"], int(cfg.get("into", 0)),
            -1 if cfg.get("fail_send_at") is None else cfg["fail_send_at"], int(cfg.get("frag_hs", 1))]


def _sx_cfg(f):
    f = list(f)
    if isinstance(f[0], bytes) and f[0] == b"sync-duplex":
        return dict(kind="sync-duplex", ver=f[1], client=f[2], writes=list(f[3]), peer_writes=list(f[4]), frag=f[5],
                    seed=f[6], recv_size=f[7], into=f[8])
    if isinstance(f[0], bytes) and f[0] == b"scenario":
        return dict(kind="scenario", flag=f[1], name=SCENARIO_NAMES[f[2]], ver=f[3], client=f[4], params=list(f[5]) if len(f) > 5 else [])
    if isinstance(f[0], bytes) and f[0] == b"multi":
        return dict(kind="multi", flag=f[1], n=f[2], ver=f[3], client=f[4], conn=f[5], early=f[6], seed=f[7])
    if isinstance(f[0], bytes):
        return dict(kind="two-readers", flag=f[1], ver=f[2], client=f[3])
    return dict(ver=f[0], client=f[1], writes=[w[0] if len(w) == 1 else list(w) for w in f[2]], peer_writes=list(f[3]),
                frag=f[4], yields=f[5], seed=f[6], recv_size=f[7], into=f[8], fail_send_at=None if f[9] < 0 else f[9],
                frag_hs=f[10] if len(f) > 10 else 1)


def _build(cfg):
    if cfg.get("kind") == "sync-duplex":
        r = run_sync_duplex(cfg)
        inp = sx.norm([1, 1, r["threads"], [b"sync-duplex", cfg["ver"], int(cfg["client"]), list(cfg["writes"]),
                                           list(cfg["peer_writes"]), cfg["frag"], cfg["seed"], cfg["recv_size"], int(cfg.get("into", 0))]])
        out = sx.norm(r["out"])
        _MEMO[sx.to_text(inp)] = out
        return inp, out, r["info"]
    if cfg.get("kind") == "scenario":
        r = run_scenario(cfg)
        tail = [b"scenario", cfg["flag"], SCENARIO_CODES[cfg["name"]], cfg["ver"], int(cfg["client"])]
        if cfg.get("params"):
            tail.append(list(cfg["params"]))
        inp = sx.norm([r["labels"], tail])
        out = list(r["out"])
        known = cfg["name"] in KNOWN_SCENARIO_SIGNATURES and not scenario_fixed(cfg["name"])
        if r["info"]["problems"] and not known:
            out.append([b"assertion failed on the real run: " + r["info"]["problems"][0].encode()])
        out = sx.norm(out)
        _MEMO[sx.to_text(inp)] = out
        return inp, out, r["info"]
    if cfg.get("kind") == "multi":
        r = run_multi(cfg)
        inp = sx.norm([r["labels"], [b"multi", cfg["flag"], cfg["n"], cfg["ver"], int(cfg["client"]), cfg["conn"], cfg["early"], cfg["seed"]]])
        out = list(r["out"])
        if r["info"]["problems"]:
            out.append([b"assertion failed on the real run: " + r["info"]["problems"][0].encode()])
        out = sx.norm(out)
        _MEMO[sx.to_text(inp)] = out
        return inp, out, r["info"]
    if cfg.get("kind") == "two-readers":
        r = run_two_readers(cfg)
        inp = sx.norm([r["labels"], [b"two-readers", cfg["flag"], cfg["ver"], int(cfg["client"])]])
        out = sx.norm(r["out"])
        _MEMO[sx.to_text(inp)] = out
        return inp, out, r["info"]
    r = run_duplex(cfg)
    inp = sx.norm([r["labels"], _cfg_sx(cfg)])
    out = sx.norm(r["out"])
    _MEMO[sx.to_text(inp)] = out
    return inp, out, r["info"]


def run_impl(inp):
    key = sx.to_text(sx.norm(inp))
    if key in _MEMO:
        return _MEMO[key]
    cfg = _sx_cfg(inp[-1])
    if cfg.get("kind") in ("two-readers", "scenario", "multi") and cfg["flag"] != current_state():
        return [777]            # recorded for the other state of the lost-wakeup fix: not applicable to this tree
    inp2, out, _info = _build(cfg)
    if cfg.get("kind") == "sync-duplex":
        return out              # thread timing decides how many would-block rounds are recorded; results do not depend on it
    if sx.norm(inp2[0]) != sx.norm(inp[0]):
        return out + [[b"recorded trace differs from this run"]]
    return out


def _alternations(events):
    seq = [ev[1] for ev in events if ev[0] in ("ssl", "send", "recv", "sent", "rcvd") and ev[1] != 0]
    # ops of the writer have MWrite, of the reader MRead; alternate = change of op id parity is not reliable, so use op kinds
    return seq


def _case(cfg, tags):
    inp, out, info = _build(cfg)
    kinds = {}
    for ev in info["events"]:
        if ev[0] == "op":
            kinds[ev[1]] = ev[2]
    seq = [kinds.get(ev[1]) for ev in info["events"] if ev[0] in ("ssl", "send", "recv", "sent", "rcvd") and kinds.get(ev[1]) in (K.M_READ, K.M_WRITE)]
    alt = sum(1 for a, b in zip(seq, seq[1:]) if a != b)
    nontrivial = alt >= 3 or cfg["frag"] != 0 or cfg.get("fail_send_at") is not None
    t = list(tags) + [f"tls1.{cfg['ver'] - 10}", "client" if cfg["client"] else "server",
                      {0: "frag-none", 1: "frag1", 2: "frag2", 7: "frag7", -1: "frag-random"}[cfg["frag"]],
                      "interleaved>=3" if alt >= 3 else "interleaved<3",
                      "big-write" if any((sum(w) if isinstance(w, (list, tuple)) else w) > 16384 for w in cfg["writes"]) else "small-write"]
    return dict(input=inp, tags=t, nontrivial=nontrivial)


SIZES_SMALL = [1, 2, 7, 100, 1000]
SIZES_BIG = [16383, 16384, 16385, 32768, 49152]


def cases(tier, rng, escalate):
    """All cases, ordered so that every block of 400 (one coqc shard) carries a similar share of the long traces."""
    thorough = tier == "thorough" or escalate
    cap = 12000 if thorough else 2500          # labels per case (longer traces are left to the other families)
    def weight(c):
        return len(c["input"][0]) if isinstance(c["input"][0], list) else 50
    allc = [c for c in _gen(thorough, rng) if weight(c) <= cap] + list(_gen_sync(thorough, rng)) + list(_gen_scenarios(thorough, rng)) + list(_gen_param_scenarios(thorough, rng)) + list(_gen_multi(thorough, rng))
    allc.sort(key=lambda c: -weight(c))
    nb = max(1, -(-len(allc) // 400))
    buckets = [allc[b::nb] for b in range(nb)]
    out = []
    for b in buckets:
        rng.shuffle(b)
    # blocks must be exactly 400 long (except the last) for the shard boundaries to fall between buckets
    flat = [c for b in buckets for c in b]
    sizes = [len(b) for b in buckets]
    if len(set(sizes[:-1])) <= 1 and all(x == 400 for x in sizes[:-1]):
        return flat
    # uneven: deal round-robin so that any window of 400 is a fair sample
    out = []
    for i in range(max(sizes)):
        for b in buckets:
            if i < len(b):
                out.append(b[i])
    return out


def scenario_fixed(name):
    """Has the tree under test the fix that makes this (formerly failing) scenario pass?"""
    return current_flag() >= 0 and bool(current_flag() & SCENARIO_FIX_BIT.get(name, 0))


def _gen_param_scenarios(thorough, rng):
    """cancellation at every suspension point of recv(); two writers over a non-atomic wrapped transport; writes around and
    above the incoming-reader buffer / BIO chunk size (256 KiB)."""
    state = current_state()

    def one(name, ver, client, params, tags):
        inp, _out, info = _build(dict(kind="scenario", flag=state, name=name, ver=ver, client=client, params=params))
        return dict(input=inp, nontrivial=True, tags=["scenario", name, f"tls1.{ver - 10}", "client" if client else "server"] + tags), info

    combos = [(13, 1), (12, 0)] if not thorough else [(13, 1), (13, 0), (12, 1), (12, 0)]
    for ver, client in combos:
        for frag, data_first, writer in ((16, 0, 0), (0, 1, 0), (16, 1, 1), (0, 0, 1)):
            _c, info = one("cancel-sweep", ver, client, [0, frag, data_first, writer], ["no-cancel"])
            yield _c
            nsteps = max(info["nsteps"].values(), default=1)
            for k in range(1, nsteps + 1):
                c, _i = one("cancel-sweep", ver, client, [k, frag, data_first, writer], [f"frag{frag}", "cancel-at-suspension-point"])
                yield c
        for piece, yields, sizes in ((1000, 1, [20000, 20000]), (1000, 0, [50000, 1]), (7, 2, [40, 50, 60, 70]), (300, 1, [1, 16385, 3, 9000])):
            n1 = len(sizes) // 2
            c, _i = one("two-writers", ver, client, [piece, yields, n1, len(sizes) - n1] + sizes, ["non-atomic-send_all"])
            yield c
        if ver == 13 and client:
            # ssl_object.read() that itself produces TLS output; the first recv() cancelled at every suspension point
            for with_data in (0, 1):
                _c, info = one("pha", ver, client, [with_data, 10 ** 6], ["post-handshake-auth", "read-produces-output", "no-cancel"])
                yield _c
                for k in range(1, max(info["nsteps"].values(), default=1) + 1):
                    c, _i = one("pha", ver, client, [with_data, k], ["post-handshake-auth", "cancel-at-suspension-point"])
                    yield c
        if scenario_fixed("cancel-read-pending-bio"):      # (otherwise: known finding, witnesses in corpus/C08)
            _c, info = one("cancel-read-pending-bio", ver, client, [0], ["no-cancel"])
            yield _c
            for k in range(1, max(info["nsteps"].values(), default=1) + 1):
                c, _i = one("cancel-read-pending-bio", ver, client, [k], ["cancel-at-suspension-point", "pending-ciphertext"])
                yield c
        for size, echo in ([(270000, 0), (270000, 1)] if not thorough else [(262143, 0), (262145, 0), (270000, 0), (270000, 1), (600000, 0), (600000, 1)]):
            c, _i = one("big-write", ver, client, [size, echo], ["above-256KiB", "request-reply" if echo else "pure-send"])
            yield c


def _gen_multi(thorough, rng):
    """2 and 3 TLS connections multiplexed on one loop (see run_multi)."""
    state = current_state()
    seed = rng.randrange(1 << 30)
    k = 0
    for ver, client in ([(13, 1), (12, 0)] if not thorough else [(13, 1), (13, 0), (12, 1), (12, 0)]):
        for n in (2, 3):
            for early in ((1, 2) if not thorough else (0, 1, 2, 3)):
                k += 1
                for conn in range(n):
                    inp, _out, info = _build(dict(kind="multi", flag=state, n=n, ver=ver, client=client, conn=conn, early=early, seed=seed + k))
                    yield dict(input=inp, nontrivial=True, tags=["multi-connection", f"{n}-connections-one-loop", f"tls1.{ver - 10}",
                                                                 "client" if client else "server", f"deliver-early{early}"])


def _gen_scenarios(thorough, rng):
    state = current_state()
    for name in SCENARIOS:
        if callable(SCENARIOS[name]):
            continue                      # parameterised: _gen_param_scenarios
        if name in KNOWN_SCENARIO_SIGNATURES and not scenario_fixed(name):
            continue                      # witnesses of known findings live in corpus/C08
        for ver in (13, 12):
            for client in (1, 0):
                inp, _out, info = _build(dict(kind="scenario", flag=state, name=name, ver=ver, client=client))
                yield dict(input=inp, nontrivial=True, tags=["scenario", name, f"tls1.{ver - 10}", "client" if client else "server"])


def _gen_sync(thorough, rng):
    """Blocking SSLStreamTransport, sender thread + receiver thread, throttling relay."""
    seed = rng.randrange(1 << 30)
    n = 0
    for ver in (13, 12):
        for client in (1, 0):
            for k in range(12 if thorough else 4):
                n += 1
                writes = [rng.choice([1, 7, 100, 3000, 16385, 40000]) for _ in range(rng.randint(1, 3))]
                peer_writes = [rng.choice([1, 7, 100, 3000, 16385, 40000]) for _ in range(rng.randint(1, 3))]
                big = sum(peer_writes) > 5000
                cfg = dict(kind="sync-duplex", ver=ver, client=client, writes=writes, peer_writes=peer_writes,
                           frag=rng.choice([0, -1] if big else [0, 1, 7, -1]), seed=seed + n,
                           recv_size=rng.choice([1, 64, 4096, 65536]) if not big else rng.choice([4096, 65536]), into=n % 2)
                inp, _out, info = _build(cfg)
                yield dict(input=inp, nontrivial=True,
                           tags=["blocking-full-duplex", f"tls1.{ver - 10}", "client" if client else "server",
                                 {0: "frag-none", 1: "frag1", 7: "frag7", -1: "frag-random"}[cfg["frag"]],
                                 "big-write" if max(writes) > 16384 else "small-write"])


def _gen(thorough, rng):
    seed = rng.randrange(1 << 30)
    n = 0
    for ver in (13, 12):
        for client in (1, 0):
            # small scope, enumerated: tiny writes both ways x fragmentation after the handshake x suspension budgets
            for writes in ([1], [2], [1, 1], [[1, 2]]):
                for peer_writes in ([1], [3], [2, 2]):
                    for frag in (0, 1, 2):
                        for yields in (0, 1, 2, 3):
                            for rep in range(2 if thorough else 1):
                                n += 1
                                cfg = dict(ver=ver, client=client, writes=writes, peer_writes=peer_writes, frag=frag,
                                           yields=yields, seed=seed + n, recv_size=1 + (n % 3), into=n % 2, frag_hs=0)
                                yield _case(cfg, ["small-scope"])
            # every write size, alone, every fragmentation that is affordable for it
            for size in SIZES_SMALL + SIZES_BIG:
                small = size <= 1000 and (thorough or not client or size <= 7)
                for frag in ((0, 1, 2, 7, -1) if small else (0, 7, -1) if thorough or size <= 1000 else (0, -1)):
                    n += 1
                    cfg = dict(ver=ver, client=client, writes=[size], peer_writes=[size if size <= 1000 else 3000], frag=frag,
                               yields=2, seed=seed + n, recv_size=rng.choice([1, 10, 100, 4096, 65536]), into=n % 2)
                    yield _case(cfg, ["single-write"])
            # several calls each way, full duplex, seeded interleavings
            for k in range(120 if thorough else 40):
                n += 1
                writes = [rng.choice(SIZES_SMALL + [rng.randint(1, 3000)]) for _ in range(rng.randint(1, 5))]
                if rng.random() < 0.3:
                    writes[rng.randrange(len(writes))] = [rng.randint(1, 50) for _ in range(rng.randint(2, 4))]
                if rng.random() < 0.25:
                    writes.append(rng.choice(SIZES_BIG))
                peer_writes = [rng.choice(SIZES_SMALL + [rng.randint(1, 3000)]) for _ in range(rng.randint(1, 5))]
                if rng.random() < 0.2:
                    peer_writes.append(rng.choice(SIZES_BIG))
                big = sum(peer_writes) > 5000
                cfg = dict(ver=ver, client=client, writes=writes, peer_writes=peer_writes,
                           frag=rng.choice([0, 7, -1] if big or (client and not thorough) else [0, 1, 2, 7, -1]), yields=rng.choice([0, 1, 2, 4]),
                           seed=seed + n, recv_size=rng.choice([1, 3, 64, 1000, 16384, 65536]) if not big else rng.choice([1000, 16384, 65536]),
                           into=rng.randint(0, 1), frag_hs=int(thorough or k % 4 == 0))
                yield _case(cfg, ["full-duplex"])
            # a send_all of the wrapped transport fails (during the handshake or later)
            for at in (0, 1, 2, 3):
                n += 1
                cfg = dict(ver=ver, client=client, writes=[10, 20], peer_writes=[30], frag=0, yields=1, seed=seed + n,
                           recv_size=100, into=0, fail_send_at=at)
                yield _case(cfg, ["send-fails"])


_KNOWN_ASKED = set()


def oracle(inp):
    cfg = _sx_cfg(inp[-1])
    if cfg.get("kind") in ("scenario", "two-readers", "multi") and cfg.get("flag") != current_state():
        return None              # witness recorded for another state of the fixes: says nothing about this tree
    r = (run_scenario(cfg) if cfg.get("kind") == "scenario" else
         run_multi(cfg) if cfg.get("kind") == "multi" else
         run_two_readers(cfg) if cfg.get("kind") == "two-readers" else
         run_sync_duplex(cfg) if cfg.get("kind") == "sync-duplex" else run_duplex(cfg))
    problems = r["info"]["problems"]
    if problems and signature(inp, problems[0]) in set(KNOWN_SCENARIO_SIGNATURES.values()) | {"lost-wakeup-after-recv-lock"}:
        # a known finding is reported once per input (the runner's known-findings pass comes first); the search for a
        # NEW failing input after a broken tie must not stop at it
        key = sx.to_text(sx.norm(inp))
        if key in _KNOWN_ASKED:
            return None
        _KNOWN_ASKED.add(key)
    return problems[0] if problems else None


def signature(inp, failure):
    if failure.startswith("lost wakeup after waiting for the recv lock"):
        return "lost-wakeup-after-recv-lock"
    if failure.startswith("recv() could not return data already in flight"):
        return KNOWN_SCENARIO_SIGNATURES["backpressure-read"]
    if failure.startswith("plaintext already decrypted by a recv() was lost behind pending ciphertext"):
        return KNOWN_SCENARIO_SIGNATURES["cancel-read-pending-bio"]
    if failure.startswith("plaintext already decrypted by a recv() was lost"):
        return KNOWN_SCENARIO_SIGNATURES["cancel-after-read"]
    return failure.split(":")[0][:60]


def shrink(inp):
    cfg = _sx_cfg(inp[-1])
    if cfg.get("kind") in ("two-readers", "sync-duplex", "scenario", "multi"):
        return
    if len(cfg["writes"]) > 1:
        for i in range(len(cfg["writes"])):
            c = dict(cfg, writes=cfg["writes"][:i] + cfg["writes"][i + 1:])
            yield _build(c)[0]
    if len(cfg["peer_writes"]) > 1:
        for i in range(len(cfg["peer_writes"])):
            c = dict(cfg, peer_writes=cfg["peer_writes"][:i] + cfg["peer_writes"][i + 1:])
            yield _build(c)[0]
    if cfg["yields"]:
        yield _build(dict(cfg, yields=0))[0]
    if cfg["frag"]:
        yield _build(dict(cfg, frag=0))[0]
