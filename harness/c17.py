"""C17 -- one client's failure (handler or connection set-up) never affects the others.

Model: coq/Conc/Isolation.v (decision model of the exception filters around one client).  The except / except* /
match clause tables it evaluates are REGENERATED here from /repo's source by a fail-closed `ast` translator
(params() -> coq/Gen/ParamsC17.v) and the theorems of coq/Props/C17.v are re-checked against them on every run.

Correspondence: REAL AsyncTCPNetworkServer (plain and TLS over loopback with harness/certs/c17_server.*) and
AsyncUDPNetworkServer on the deterministic loop (real loopback sockets, virtual clock), two healthy clients plus one
faulty one, every exception kind x hook position (+ a second fault in on_disconnection) and the set-up faults.
"""
from __future__ import annotations

import ast
import asyncio
import builtins
import contextlib
import importlib
import itertools
import logging
import os
import socket
import ssl
import struct
import textwrap

from common import detloop
from common.runner import REPO, TranslateError

PROPERTY_ID = "C17"
RUN_MODULE = "Run.C17"
PROPS_FILE = "Props/C17.v"
ALLOWED_AXIOMS = []
SRC = "src/easynetwork/"
ANCHORS = [
    (SRC + "servers/async_tcp.py", "AsyncTCPNetworkServer.__suppress_and_log_remaining_exception"),
    (SRC + "servers/async_tcp.py", "AsyncTCPNetworkServer.__client_initializer"),
    (SRC + "servers/async_tcp.py", "AsyncTCPNetworkServer.__lowlevel_serve"),
    (SRC + "servers/async_tcp.py", "AsyncTCPNetworkServer.__client_tls_handshake_error_handler"),
    (SRC + "servers/async_tcp.py", "_ConnectedClientAPI._on_disconnect"),
    (SRC + "servers/async_udp.py", "_ClientContext.__aexit__"),
    (SRC + "servers/async_udp.py", "_ClientContext.__aenter__"),
    (SRC + "servers/misc.py", "build_lowlevel_stream_server_handler"),
    (SRC + "servers/misc.py", "build_lowlevel_datagram_server_handler"),
    (SRC + "lowlevel/api_async/servers/stream.py", "AsyncStreamServer.__client_coroutine"),
    (SRC + "lowlevel/api_async/servers/stream.py", "_RequestReceiver.next"),
    (SRC + "lowlevel/api_async/servers/stream.py", "_BufferedRequestReceiver.next"),
    (SRC + "lowlevel/api_async/servers/datagram.py", "AsyncDatagramServer.__client_coroutine"),
    (SRC + "lowlevel/api_async/servers/datagram.py", "AsyncDatagramServer.__client_coroutine_inner_loop"),
    (SRC + "lowlevel/api_async/servers/datagram.py", "AsyncDatagramServer.__on_client_coroutine_task_done"),
    (SRC + "lowlevel/api_async/backend/_asyncio/stream/listener.py", "ListenerSocketAdapter.serve"),
    (SRC + "lowlevel/api_async/transports/tls.py", "AsyncTLSListener.serve"),
    (SRC + "lowlevel/api_async/backend/_asyncio/stream/socket.py", "AsyncioTransportStreamSocketAdapter.aclose"),
    (SRC + "lowlevel/api_async/transports/utils.py", "aclose_forcefully"),
    (SRC + "exceptions.py", "ClientClosedError"),
]
RULE = ("every exception kind (7 naked leaves: ValueError, OSError, ConnectionResetError, ClientClosedError, "
        "TimeoutError, protocol parse error, a BaseException-only class; exception groups over every non-empty "
        "subset of the Exception leaves up to size 3 + the full set + BaseExceptionGroups, flat and nested) x every "
        "hook position (TCP: 10, UDP: 5) x {no second fault, a second fault raised by on_disconnection} on the plain "
        "TCP, TLS and UDP servers, plus set-up faults (RST after accept, garbage / stalled / closed TLS handshake, "
        "exceptions injected into the accepted-socket factory and the TLS wrap). Each case runs with two healthy "
        "clients that must still be answered afterwards. Non-trivial = the fault is an exception group, or a second "
        "fault is present, or the position is one of: thrown-error handling, second generator, on_disconnection, "
        "set-up fault.")
TRUSTED = [
    "decision model coq/Conc/Isolation.v hand-written from servers/async_tcp.py, async_udp.py, misc.py, "
    "lowlevel/api_async/servers/{stream,datagram}.py, backend/_asyncio/stream/listener.py, transports/tls.py",
    "fail-closed ast translator harness/c17.py:params() (except/except*/match clause tables, exit-stack push order, "
    "class hierarchy by issubclass on the real classes)",
    "Python semantics of except*, BaseExceptionGroup.split, contextlib exit stacks and asynccontextmanager as "
    "modelled (validated by the correspondence on CPython 3.12)",
]
ASSUMPTIONS = [
    "exception kinds outside Exception (KeyboardInterrupt, SystemExit, CancelledError raised by user code) are outside "
    "the statement; the model carries one BaseException-only kind to show the hypothesis is needed",
    "logging calls and _utils.remove_traceback_frames_in_place do not raise",
    "an exception group is abstracted to the list of its leaves (split/except* match leaf by leaf); nested groups are "
    "exercised on the implementation and must give the same observables",
]

# ----------------------------------------------------------------------------------------------------------------
# exception kinds
# ----------------------------------------------------------------------------------------------------------------
LEAF_NAMES = ["KGeneric", "KOSError", "KConnection", "KClientClosed", "KTimeout", "KParse", "KFatal"]
N_LEAVES = len(LEAF_NAMES)
EXC_LEAVES = [0, 1, 2, 3, 4, 5]


class FatalBase(BaseException):
    """A BaseException that is not an Exception (outside the property; used to show the harness sees a crash)."""


def _leaf_classes(udp=False):
    from easynetwork.exceptions import ClientClosedError, DatagramProtocolParseError, StreamProtocolParseError
    return [ValueError, OSError, ConnectionResetError, ClientClosedError, TimeoutError,
            DatagramProtocolParseError if udp else StreamProtocolParseError, FatalBase]


def make_leaf(code, udp=False):
    import errno
    from easynetwork.exceptions import (ClientClosedError, DatagramProtocolParseError, DeserializeError,
                                        StreamProtocolParseError)
    if code == 0:
        return ValueError("injected")
    if code == 1:
        return OSError(errno.EIO, "injected")
    if code == 2:
        return ConnectionResetError(errno.ECONNRESET, "injected")
    if code == 3:
        return ClientClosedError("injected")
    if code == 4:
        return TimeoutError("injected")
    if code == 5:
        if udp:
            return DatagramProtocolParseError(DeserializeError("injected"))
        return StreamProtocolParseError(b"", DeserializeError("injected"))
    if code == 6:
        return FatalBase("injected")
    raise ValueError(code)


CLOSE_ERRNOS = ["EIO", "ENOTCONN", "EBADF", "EPIPE", "ECONNRESET", "ETIMEDOUT"]


def make_close_error(leaf, errno_idx):
    """what socket.shutdown() may raise at the final close: OSError(errno) is mapped by Python to its subclass
    (EPIPE -> BrokenPipeError, ECONNRESET -> ConnectionResetError, ETIMEDOUT -> TimeoutError; ENOTCONN / EBADF / EIO stay
    plain OSError); leaf 0 = a non-OSError (ValueError), outside the statement"""
    import errno
    if leaf == 0:
        return ValueError("injected at write_eof")
    if leaf == 6:
        return FatalBase("injected at write_eof")
    return OSError(getattr(errno, CLOSE_ERRNOS[errno_idx]), "injected at write_eof")


def make_exc(spec, udp=False, nested=False):
    """spec = [0, leaf] | [1, [leaves...]]"""
    if not spec:
        return None
    if spec[0] == 0:
        return make_leaf(spec[1], udp)
    leaves = [make_leaf(c, udp) for c in spec[1]]
    if nested and len(leaves) >= 2:
        inner = BaseExceptionGroup("inner", leaves[: len(leaves) // 2 + 0] or leaves[:1])
        rest = leaves[len(leaves) // 2:]
        return BaseExceptionGroup("outer", [inner] + rest) if leaves[: len(leaves) // 2] else BaseExceptionGroup("outer", rest)
    return BaseExceptionGroup("group", leaves)


# ----------------------------------------------------------------------------------------------------------------
# translator: /repo source -> coq/Gen/ParamsC17.v
# ----------------------------------------------------------------------------------------------------------------
LOG_CODES = [
    ("There have been attempts to do operation on closed client", 1),
    ("Exception occurred during processing of request", 2),
    ("ConnectionError raised in request_handler.on_disconnection()", 3),
]
LOG_IGNORED_PREFIXES = ("-----", "Accepted new connection", "%s disconnected", "Start serving", "Server stopped",
                        "Server loop break", "Error in client task")


def _src(rel):
    path = os.path.join(REPO, rel)
    try:
        return ast.parse(open(path).read())
    except SyntaxError as exc:
        raise TranslateError(f"{rel}: does not parse: {exc}")


def _find(node, *names):
    for name in names:
        found = None
        for ch in ast.walk(node) if isinstance(node, ast.Module) and False else ast.iter_child_nodes(node):
            if isinstance(ch, (ast.FunctionDef, ast.AsyncFunctionDef, ast.ClassDef)) and ch.name == name:
                found = ch
                break
        if found is None:
            raise TranslateError(f"definition {'.'.join(names)} not found (stopped at {name})")
        node = found
    return node


class _Classes:
    """Class names occurring in clauses -> numbers + the real class objects (for the instance table)."""

    def __init__(self):
        self.names = []
        self.objs = []
        self.add_obj("BaseException", BaseException)
        self.add_obj("Exception", Exception)
        self.add_obj("asyncio.CancelledError", asyncio.CancelledError)
        self.add_obj("OSError", OSError)
        self.env = {}

    def add_obj(self, name, obj):
        if name in self.names:
            if self.objs[self.names.index(name)] is not obj:
                raise TranslateError(f"class name {name} resolves to two different classes")
            return self.names.index(name)
        if not (isinstance(obj, type) and issubclass(obj, BaseException)):
            raise TranslateError(f"{name} is not an exception class")
        self.names.append(name)
        self.objs.append(obj)
        return len(self.names) - 1

    def resolve(self, expr, module):
        """expr: the `type` of an except handler / a class pattern -> list of class numbers."""
        if isinstance(expr, ast.Tuple):
            out = []
            for e in expr.elts:
                out.extend(self.resolve(e, module))
            return out
        if isinstance(expr, ast.Name) and expr.id in self.env and expr.id not in vars(module):
            return self.resolve(self.env[expr.id], module)      # a local bound to a class / tuple of classes just above
        if isinstance(expr, ast.Name):
            ns = vars(module)
            if expr.id in ns:
                obj = ns[expr.id]
            elif hasattr(builtins, expr.id):
                obj = getattr(builtins, expr.id)
            else:
                raise TranslateError(f"cannot resolve class name {expr.id} in {module.__name__}")
            return [self.add_obj(expr.id if obj.__module__ == "builtins" else f"{obj.__module__}.{obj.__qualname__}", obj)]
        if isinstance(expr, ast.Attribute) and isinstance(expr.value, ast.Name):
            ns = vars(module)
            base = ns.get(expr.value.id)
            obj = getattr(base, expr.attr, None)
            if obj is None:
                raise TranslateError(f"cannot resolve {expr.value.id}.{expr.attr} in {module.__name__}")
            name = f"{obj.__module__}.{obj.__qualname__}"
            if obj is asyncio.CancelledError:
                name = "asyncio.CancelledError"
            return [self.add_obj(name, obj)]
        if isinstance(expr, ast.Call) and isinstance(expr.func, ast.Attribute) and expr.func.attr == "get_cancelled_exc_class" \
                and not expr.args and not expr.keywords:
            # backend().get_cancelled_exc_class(): the asyncio backend is the only one installed here
            return [self.add_obj("asyncio.CancelledError", asyncio.CancelledError)]
        raise TranslateError(f"unrecognised exception class expression: {ast.dump(expr)[:200]}")


def _is_logger_call(call, consts=None):
    """logger.warning(...)/self.logger.error(...)/self.__logger.x(...)/logger.log(level, msg...) -> message constant"""
    if not (isinstance(call, ast.Call) and isinstance(call.func, ast.Attribute)):
        return None
    f = call.func
    if f.attr not in ("debug", "info", "warning", "error", "exception", "critical", "log"):
        return None
    tgt = f.value
    ok = (isinstance(tgt, ast.Name) and tgt.id == "logger") or \
         (isinstance(tgt, ast.Attribute) and tgt.attr in ("logger", "__logger", "_ClientContext__logger"))
    if not ok:
        return None
    args = call.args[1:] if f.attr == "log" else call.args
    if not args:
        raise TranslateError("logger call without a message")
    msg = args[0]
    if isinstance(msg, ast.Name) and consts and msg.id in consts:
        msg = consts[msg.id]              # a local bound to a constant expression just above (e.g. separator = "-" * 40)
    if isinstance(msg, ast.Constant) and isinstance(msg.value, str):
        return msg.value
    if isinstance(msg, ast.BinOp) and isinstance(msg.left, ast.Constant) and msg.left.value == "-":
        return "-----"
    raise TranslateError(f"logger call with a non-constant message: {ast.dump(msg)[:120]}")


def _log_code(msg):
    for prefix, code in LOG_CODES:
        if msg.startswith(prefix):
            return code
    if msg.startswith(LOG_IGNORED_PREFIXES):
        return 0
    return 99


def _is_call_to(stmt, *names, awaited=None):
    """Expr statement calling a function whose dotted tail is one of names."""
    if not isinstance(stmt, ast.Expr):
        return False
    v = stmt.value
    if isinstance(v, ast.Await):
        if awaited is False:
            return False
        v = v.value
    elif awaited is True:
        return False
    if not isinstance(v, ast.Call):
        return False
    f = v.func
    tail = f.attr if isinstance(f, ast.Attribute) else f.id if isinstance(f, ast.Name) else None
    return tail in names


def _classify_body(body, exc_name, classes, module, where):
    """Body of an except handler -> (action text, closes flag)."""
    logs, closes, action = [], False, None
    consts = {}
    for i, st in enumerate(body):
        last = i == len(body) - 1
        if isinstance(st, ast.Pass):
            continue
        if isinstance(st, ast.Assign) and len(st.targets) == 1 and isinstance(st.targets[0], ast.Name) \
                and not any(isinstance(n, (ast.Call, ast.Await, ast.Name, ast.Attribute, ast.Subscript)) for n in ast.walk(st.value)):
            consts[st.targets[0].id] = st.value      # a local bound to a constant expression: cannot raise, no effect
            continue
        if isinstance(st, ast.Expr) and (msg := _is_logger_call(st.value, consts)) is not None:
            code = _log_code(msg)
            if code:
                logs.append(code)
            continue
        if _is_call_to(st, "remove_traceback_frames_in_place"):
            continue
        if _is_call_to(st, "close", awaited=False) or _is_call_to(st, "aclose_forcefully", awaited=True):
            if action is None:
                closes = True
            continue
        if isinstance(st, ast.Raise) and st.exc is None and st.cause is None and last:
            action = "AReraise"
            continue
        if isinstance(st, ast.If) and last and not st.orelse and len(st.body) == 1 and isinstance(st.body[0], ast.Raise) \
                and st.body[0].exc is None and isinstance(st.test, ast.UnaryOp) and isinstance(st.test.op, ast.Not) \
                and isinstance(st.test.operand, ast.Call) and isinstance(st.test.operand.func, ast.Name) \
                and st.test.operand.func.id == "isinstance" and len(st.test.operand.args) == 2 \
                and isinstance(st.test.operand.args[0], ast.Name) and st.test.operand.args[0].id == exc_name:
            (c,) = classes.resolve(st.test.operand.args[1], module)
            action = f"AReraiseUnless {c}"
            continue
        if _is_logonly_if(st, exc_name):
            continue
        raise TranslateError(f"{where}: unrecognised statement in except body: {ast.unparse(st)[:160]!r}")
    if action is None:
        if len(logs) > 1:
            raise TranslateError(f"{where}: more than one classified log record in one handler: {logs}")
        action = f"ASwallow {logs[0] if logs else 0}"
    return action, closes


def _no_raise_inside(node):
    return not any(isinstance(n, (ast.Raise, ast.Return, ast.Await, ast.Yield, ast.YieldFrom)) for n in ast.walk(node))


def _is_pure_test(test):
    """a condition built from isinstance(), attribute reads, comparisons and boolean operators only"""
    for n in ast.walk(test):
        if isinstance(n, ast.Call):
            f = n.func
            name = f.id if isinstance(f, ast.Name) else f.attr if isinstance(f, ast.Attribute) else None
            if name not in ("isinstance", "is_ssl_eof_error"):
                return False
        elif isinstance(n, (ast.Await, ast.Yield, ast.YieldFrom, ast.NamedExpr, ast.Lambda)):
            return False
    return True


def _is_log_only_stmt(st):
    """pass / a logging call / a call of one of the known log-only helpers / a nested log-only if"""
    if isinstance(st, ast.Pass):
        return True
    if isinstance(st, ast.If):
        return _is_pure_test(st.test) and all(_is_log_only_stmt(b) for b in st.body + st.orelse)
    if isinstance(st, ast.Expr) and isinstance(st.value, ast.Call):
        if _is_logger_call(st.value, {}) is not None:
            return True
        return _is_call_to(st, "log_connection_error", "__default_handshake_error_handler", awaited=False)
    return False


def _is_logonly_if(st, exc_name):
    """Recognised log-only statements:
       (listener)  if isinstance(exc, OSError) and exc.errno in constants.NOT_CONNECTED_SOCKET_ERRNOS: pass
                   else: self.__accepted_socket_factory.log_connection_error(logger, exc)
       (tls)       handshake_error_handler = self.__handshake_error_handler
                   if handshake_error_handler is None: default(exc)
                   else: try: handshake_error_handler(exc) except Exception as e: default(e)"""
    if isinstance(st, ast.Assign) and len(st.targets) == 1 and isinstance(st.targets[0], ast.Name) \
            and st.targets[0].id == "handshake_error_handler" and isinstance(st.value, ast.Attribute):
        return True
    if not isinstance(st, ast.If):
        return False
    if _is_pure_test(st.test) and all(_is_log_only_stmt(b) for b in st.body + st.orelse):
        return True
    src = ast.unparse(st.test)
    if src == f"isinstance({exc_name}, OSError) and {exc_name}.errno in constants.NOT_CONNECTED_SOCKET_ERRNOS":
        return all(isinstance(s, ast.Pass) for s in st.body) and len(st.orelse) == 1 and \
            _is_call_to(st.orelse[0], "log_connection_error", awaited=False)
    if src == "handshake_error_handler is None":
        if not (len(st.body) == 1 and _is_call_to(st.body[0], "__default_handshake_error_handler", awaited=False)):
            return False
        if not (len(st.orelse) == 1 and isinstance(st.orelse[0], ast.Try)):
            return False
        t = st.orelse[0]
        if t.finalbody or t.orelse or len(t.handlers) != 1 or len(t.body) != 1:
            return False
        h = t.handlers[0]
        return _is_call_to(t.body[0], "handshake_error_handler", awaited=False) and isinstance(h.type, ast.Name) \
            and h.type.id == "Exception" and len(h.body) == 1 and \
            _is_call_to(h.body[0], "__default_handshake_error_handler", awaited=False)
    return False


def _clauses(trynode, classes, module, where):
    if trynode.finalbody:
        raise TranslateError(f"{where}: unexpected finally clause")
    out = []
    for h in trynode.handlers:
        if h.type is None:
            cls = [0]  # bare except = BaseException
        else:
            cls = classes.resolve(h.type, module)
        if isinstance(trynode, ast.TryStar):
            for c in cls:
                if issubclass(classes.objs[c], BaseExceptionGroup):
                    raise TranslateError(f"{where}: except* naming an exception group class")
        action, closes = _classify_body(h.body, h.name or "", classes, module, where)
        out.append("{| c_classes := [%s]; c_action := %s; c_closes := %s |}"
                   % ("; ".join(map(str, cls)), action, "true" if closes else "false"))
    return "[" + ";\n      ".join(out) + "]"


def _layer(trynode, classes, module, where):
    kind = "LStar" if isinstance(trynode, ast.TryStar) else "LPlain"
    return f"{kind} {_clauses(trynode, classes, module, where)}"


def _only_try(body, where):
    tries = [s for s in body if isinstance(s, (ast.Try, ast.TryStar))]
    if len(tries) != 1:
        raise TranslateError(f"{where}: expected exactly one try statement, found {len(tries)}")
    return tries[0]


def _tr_tcp_suppress(tree, classes):
    mod = importlib.import_module("easynetwork.servers.async_tcp")
    fn = _find(tree, "AsyncTCPNetworkServer", "__suppress_and_log_remaining_exception")
    where = "async_tcp.__suppress_and_log_remaining_exception"
    if not any(isinstance(d, ast.Attribute) and d.attr == "contextmanager" for d in fn.decorator_list):
        raise TranslateError(f"{where}: not a contextlib.contextmanager")
    if len(fn.body) != 1 or not isinstance(fn.body[0], (ast.Try, ast.TryStar)):
        raise TranslateError(f"{where}: body is not a single try statement")
    layers, node = [], fn.body[0]
    while True:
        layers.append(_layer(node, classes, mod, where))
        if node.orelse:
            raise TranslateError(f"{where}: unexpected else clause")
        if len(node.body) == 1 and isinstance(node.body[0], (ast.Try, ast.TryStar)):
            node = node.body[0]
            continue
        if len(node.body) == 1 and isinstance(node.body[0], ast.Expr) and isinstance(node.body[0].value, ast.Yield) \
                and node.body[0].value.value is None:
            break
        raise TranslateError(f"{where}: innermost try body is not a bare `yield`")
    return list(reversed(layers))


def _tr_tcp_init(tree):
    """__client_initializer: exit-stack push order before `yield client`, per branch, and the reraise around the yield."""
    fn = _find(tree, "AsyncTCPNetworkServer", "__client_initializer")
    where = "async_tcp.__client_initializer"
    if len(fn.body) != 1 or not isinstance(fn.body[0], ast.AsyncWith):
        raise TranslateError(f"{where}: body is not a single `async with AsyncExitStack()`")
    w = fn.body[0]
    if len(w.items) != 1 or "AsyncExitStack" not in ast.unparse(w.items[0].context_expr) or \
            not isinstance(w.items[0].optional_vars, ast.Name):
        raise TranslateError(f"{where}: unexpected async with items")
    stack = w.items[0].optional_vars.id

    def item_of(call_src):
        if "_bind_server" in call_src:
            return "SBind"
        if "__suppress_and_log_remaining_exception" in call_src:
            return "SSuppress"
        if "__set_socket_linger_if_not_closed" in call_src:
            return "SLinger"
        if "aclosing(lowlevel_client)" in call_src:
            return "SAclosing"
        if "_on_disconnect" in call_src:
            return "SOnDisconnect"
        if "logger.log" in call_src and "disconnected" in call_src:
            return "SLogDisconnected"
        raise TranslateError(f"{where}: unrecognised exit-stack registration: {call_src[:120]!r}")

    common_before, plain, tls, tls_nc, common_after = [], [], [], [], []
    reraises = None
    seen_yield = False
    seen_branch = False
    for st in w.body:
        src = ast.unparse(st)
        if isinstance(st, ast.Try):
            # try: yield client / except BaseException as exc: ...; raise
            if not (len(st.body) == 1 and isinstance(st.body[0], ast.Expr) and isinstance(st.body[0].value, ast.Yield)
                    and ast.unparse(st.body[0].value.value) == "client") or st.finalbody or st.orelse:
                raise TranslateError(f"{where}: unexpected try statement")
            if len(st.handlers) != 1 or ast.unparse(st.handlers[0].type) != "BaseException":
                raise TranslateError(f"{where}: the handler around `yield client` is not `except BaseException`")
            body = st.handlers[0].body
            reraises = isinstance(body[-1], ast.Raise) and body[-1].exc is None and \
                all(_is_call_to(b, "remove_traceback_frames_in_place") for b in body[:-1])
            if not reraises:
                raise TranslateError(f"{where}: `except BaseException` around `yield client` does not simply re-raise")
            seen_yield = True
            continue
        if seen_yield:
            raise TranslateError(f"{where}: statements after `yield client`")
        if isinstance(st, ast.If) and not st.orelse and len(st.body) == 2 and ast.unparse(st.body[0]) == "yield None" \
                and ast.unparse(st.body[1]) == "return" and ast.unparse(st.test).endswith(" is None"):
            continue  # the peer is already gone: yield None; return  (no client: nothing to protect)
        if isinstance(st, ast.If) and "TLSAttribute.sslcontext" in ast.unparse(st.test):
            # plain branch / TLS standard-compatible branch
            seen_branch = True
            for s in st.body:
                if f"{stack}." in ast.unparse(s):
                    plain.append(item_of(ast.unparse(s)))
            # elif standard_compatible: ...  [else: ...]   -- three transport flavours
            rest = st.orelse
            if len(rest) == 1 and isinstance(rest[0], ast.If) and "standard_compatible" in ast.unparse(rest[0].test):
                for s2 in rest[0].body:
                    if f"{stack}." in ast.unparse(s2):
                        tls.append(item_of(ast.unparse(s2)))
                for s2 in rest[0].orelse:
                    if isinstance(s2, ast.If):
                        raise TranslateError(f"{where}: more than three transport branches")
                    if f"{stack}." in ast.unparse(s2):
                        tls_nc.append(item_of(ast.unparse(s2)))
            elif rest:
                raise TranslateError(f"{where}: unexpected shape of the TLS branch")
            continue
        if f"{stack}." in src:
            if not isinstance(st, ast.Expr):
                raise TranslateError(f"{where}: exit-stack registration in an unexpected statement: {src[:120]!r}")
            (common_after if seen_branch else common_before).append(item_of(src))
            continue
        if isinstance(st, (ast.Assign, ast.AnnAssign, ast.Delete)) or _is_logger_call(getattr(st, "value", None)) is not None:
            continue
        raise TranslateError(f"{where}: unrecognised statement: {src[:160]!r}")
    if reraises is None:
        raise TranslateError(f"{where}: `yield client` not found")
    return (common_before + plain + common_after, common_before + tls + common_after,
            common_before + tls_nc + common_after, reraises)


def _tr_misc_stream(tree, classes):
    mod = importlib.import_module("easynetwork.servers.misc")
    outer = _find(tree, "build_lowlevel_stream_server_handler")
    fn = _find(outer, "handler")
    where = "misc.build_lowlevel_stream_server_handler.handler"
    if len(fn.body) != 1 or not isinstance(fn.body[0], ast.AsyncWith):
        raise TranslateError(f"{where}: body is not a single async with")
    w = fn.body[0]
    items = [ast.unparse(i.context_expr) for i in w.items]
    if len(items) != 2 or not items[0].startswith("initializer(") or "AsyncExitStack()" not in items[1]:
        raise TranslateError(f"{where}: unexpected async with items {items}")
    idx_conn = idx_push = idx_loop = None
    disc = None
    for i, st in enumerate(w.body):
        src = ast.unparse(st)
        if isinstance(st, ast.If) and "isinstance(_on_connection_hook, AsyncGenerator)" in ast.unparse(st.test):
            idx_conn = i
        if isinstance(st, ast.AsyncFunctionDef) and st.name == "disconnect_client":
            disc = st
        if isinstance(st, ast.Expr) and "push_async_callback(disconnect_client)" in src:
            idx_push = i
        if isinstance(st, ast.While):
            idx_loop = i
    if None in (idx_conn, idx_push, idx_loop) or disc is None:
        raise TranslateError(f"{where}: on_connection section / disconnect_client registration / request loop not found")
    if not idx_push < idx_loop:
        raise TranslateError(f"{where}: disconnect_client is registered after the request loop")
    t = _only_try(disc.body, where + ".disconnect_client")
    if len(disc.body) != 1 or len(t.body) != 1 or "request_handler.on_disconnection(client)" not in ast.unparse(t.body[0]) or t.orelse:
        raise TranslateError(f"{where}.disconnect_client: unexpected shape")
    layer = _layer(t, classes, mod, where + ".disconnect_client")
    return layer, idx_conn < idx_push


def _tr_stream_task(tree):
    fn = _find(tree, "AsyncStreamServer", "__client_coroutine")
    where = "stream.AsyncStreamServer.__client_coroutine"
    withs = [s for s in fn.body if isinstance(s, ast.AsyncWith)]
    if len(withs) != 1 or "AsyncExitStack()" not in ast.unparse(withs[0].items[0].context_expr):
        raise TranslateError(f"{where}: task exit stack not found")
    body = withs[0].body
    first = ast.unparse(body[0])
    pushed_first = "push_async_callback" in first and "aclose_forcefully" in first and "transport" in first
    if not pushed_first:
        # accepted only if the registration exists somewhere before the handler is created; otherwise false
        idx_push = next((i for i, s in enumerate(body) if "aclose_forcefully" in ast.unparse(s) and "push_async_callback" in ast.unparse(s)), None)
        idx_gen = next((i for i, s in enumerate(body) if "client_connected_cb(" in ast.unparse(s)), None)
        if idx_gen is None:
            raise TranslateError(f"{where}: handler creation not found")
        pushed_first = idx_push is not None and idx_push < idx_gen and \
            all(_no_raise_inside(s) for s in body[:idx_push] if not isinstance(s, (ast.Assign, ast.AnnAssign)))
    return pushed_first


def _tr_listener(tree, classes):
    mod = importlib.import_module("easynetwork.lowlevel.api_async.backend._asyncio.stream.listener")
    fn = _find(_find(tree, "ListenerSocketAdapter", "serve"), "client_connection_task")
    where = "listener.ListenerSocketAdapter.serve.client_connection_task"
    if len(fn.body) != 1 or not isinstance(fn.body[0], ast.Try):
        raise TranslateError(f"{where}: body is not a single try")
    t = fn.body[0]
    if len(t.body) != 1 or "await connect(" not in ast.unparse(t.body[0]):
        raise TranslateError(f"{where}: try body is not the connect() call")
    if len(t.orelse) != 1 or "task_group.start_soon(handler, stream)" not in ast.unparse(t.orelse[0]):
        raise TranslateError(f"{where}: else branch does not start the handler task")
    node = ast.Try(body=t.body, handlers=t.handlers, orelse=[], finalbody=t.finalbody)
    return _layer(node, classes, mod, where)


def _tr_tls(tree, classes):
    mod = importlib.import_module("easynetwork.lowlevel.api_async.transports.tls")
    fn = _find(_find(tree, "AsyncTLSListener", "serve"), "tls_handler_wrapper")
    where = "tls.AsyncTLSListener.serve.tls_handler_wrapper"
    if len(fn.body) != 1 or not isinstance(fn.body[0], ast.Try):
        raise TranslateError(f"{where}: body is not a single try")
    t = fn.body[0]
    if len(t.body) != 1 or "AsyncTLSStreamTransport.wrap(" not in ast.unparse(t.body[0]):
        raise TranslateError(f"{where}: try body is not the wrap() call")
    if len(t.orelse) != 1 or ast.unparse(t.orelse[0]) != "await handler(stream)":
        raise TranslateError(f"{where}: else branch is not `await handler(stream)`")
    node = ast.Try(body=t.body, handlers=t.handlers, orelse=[], finalbody=t.finalbody)
    # names bound in the enclosing serve() to a class or a tuple of classes (e.g. handshake_errors = (A, B))
    serve = _find(tree, "AsyncTLSListener", "serve")
    classes.env = {st.targets[0].id: st.value for st in serve.body
                   if isinstance(st, ast.Assign) and len(st.targets) == 1 and isinstance(st.targets[0], ast.Name)
                   and isinstance(st.value, (ast.Tuple, ast.Name, ast.Attribute))}
    try:
        return _layer(node, classes, mod, where)
    finally:
        classes.env = {}


def _tr_adapter_close(tree, classes):
    """AsyncioTransportStreamSocketAdapter.aclose: the try around transport.write_eof() (the socket shutdown of the final,
    forced close of a client task: what it raises there is outside every per-client filter)"""
    mod = importlib.import_module("easynetwork.lowlevel.api_async.backend._asyncio.stream.socket")
    fn = _find(tree, "AsyncioTransportStreamSocketAdapter", "aclose")
    where = "socket.AsyncioTransportStreamSocketAdapter.aclose"
    tries = [n for n in ast.walk(fn) if isinstance(n, ast.Try) and "write_eof()" in ast.unparse(ast.Module(body=n.body, type_ignores=[]))]
    if len(tries) != 1:
        raise TranslateError(f"{where}: expected exactly one try statement around write_eof(), found {len(tries)}")
    t = tries[0]
    if not (len(t.finalbody) == 1 and ast.unparse(t.finalbody[0]).endswith(".close()")) or t.orelse:
        raise TranslateError(f"{where}: the transport is not closed in the finally clause of that try")
    node = ast.Try(body=t.body, handlers=t.handlers, orelse=[], finalbody=[])
    return _layer(node, classes, mod, where)


def _tr_udp_aexit(tree, classes):
    mod = importlib.import_module("easynetwork.servers.async_udp")
    fn = _find(tree, "_ClientContext", "__aexit__")
    where = "async_udp._ClientContext.__aexit__"
    subject = fn.args.posonlyargs[2].arg if len(fn.args.posonlyargs) >= 3 else fn.args.args[2].arg
    body = [s for s in fn.body if not (isinstance(s, ast.Expr) and isinstance(s.value, ast.Constant))]
    # fast path: if exc_val is None: return False
    if not (isinstance(body[0], ast.If) and ast.unparse(body[0].test) == f"{subject} is None"
            and ast.unparse(body[0].body[0]) == "return False"):
        raise TranslateError(f"{where}: fast path not recognised")
    rest = [s for s in body[1:] if not isinstance(s, ast.Delete)]
    if len(rest) != 1 or not isinstance(rest[0], ast.Try) or rest[0].handlers or rest[0].orelse:
        raise TranslateError(f"{where}: expected `try: match ... finally: del`")
    if not all(isinstance(s, ast.Delete) for s in rest[0].finalbody):
        raise TranslateError(f"{where}: finally clause does more than `del`")
    if len(rest[0].body) != 1 or not isinstance(rest[0].body[0], ast.Match) or ast.unparse(rest[0].body[0].subject) != subject:
        raise TranslateError(f"{where}: expected a match on {subject}")

    def log_code_of(stmt):
        src = ast.unparse(stmt)
        if "__log_closed_client_errors(" in src:
            return 1
        if "__log_exception(" in src:
            return 2
        return None

    def result(stmts, w):
        """statements of a case body -> mres"""
        log = 0
        for i, s in enumerate(stmts):
            if isinstance(s, ast.Delete):
                continue
            if isinstance(s, ast.Expr) and log_code_of(s) is not None and isinstance(s.value, ast.Call):
                if log:
                    raise TranslateError(f"{w}: two log calls in one case")
                log = log_code_of(s)
                continue
            if isinstance(s, ast.Return) and isinstance(s.value, ast.Constant) and i == len(stmts) - 1:
                if s.value.value is True:
                    return f"MSuppress {log}"
                if s.value.value is False and not log:
                    return "MPropagate"
            if isinstance(s, ast.Raise) and s.exc is not None and ast.unparse(s.exc) == subject and i == len(stmts) - 1 and not log:
                return "MRaiseRest"
            raise TranslateError(f"{w}: unrecognised statement in case body: {ast.unparse(s)[:120]!r}")
        raise TranslateError(f"{w}: case body without return/raise")

    def class_of(pattern, w):
        if isinstance(pattern, ast.MatchClass) and not pattern.patterns and not pattern.kwd_patterns:
            (c,) = classes.resolve(pattern.cls, mod)
            return c
        raise TranslateError(f"{w}: unrecognised pattern {ast.unparse(pattern)!r}")

    out = []
    for case in rest[0].body[0].cases:
        if case.guard is not None:
            raise TranslateError(f"{where}: guarded case")
        pat = case.pattern
        if isinstance(pat, ast.MatchAs) and pat.pattern is None and pat.name is None:
            out.append(f"MDefault ({result(case.body, where)})")
            continue
        c = class_of(pat, where)
        if issubclass(classes.objs[c], BaseExceptionGroup):
            # connection_errors, exc_val = exc_val.split(C); if connection_errors is not None: log; match exc_val: ...
            b = case.body
            if len(b) != 3 or not isinstance(b[0], ast.Assign) or not isinstance(b[1], ast.If) or not isinstance(b[2], ast.Match):
                raise TranslateError(f"{where}: group case has an unexpected shape")
            tgt = b[0].targets[0]
            if not (isinstance(tgt, ast.Tuple) and len(tgt.elts) == 2 and ast.unparse(tgt.elts[1]) == subject
                    and isinstance(b[0].value, ast.Call) and ast.unparse(b[0].value.func) == f"{subject}.split"
                    and len(b[0].value.args) == 1):
                raise TranslateError(f"{where}: split assignment not recognised")
            matched = ast.unparse(tgt.elts[0])
            (csplit,) = classes.resolve(b[0].value.args[0], mod)
            if ast.unparse(b[1].test) != f"{matched} is not None" or b[1].orelse or len(b[1].body) != 1 or log_code_of(b[1].body[0]) is None:
                raise TranslateError(f"{where}: `if {matched} is not None: log` not recognised")
            lsplit = log_code_of(b[1].body[0])
            if ast.unparse(b[2].subject) != subject:
                raise TranslateError(f"{where}: inner match on an unexpected subject")
            rnone, inner, dflt = None, [], None
            for ic in b[2].cases:
                if ic.guard is not None:
                    raise TranslateError(f"{where}: guarded inner case")
                p = ic.pattern
                if isinstance(p, ast.MatchSingleton) and p.value is None:
                    if inner:
                        raise TranslateError(f"{where}: `case None` must come first")
                    rnone = result(ic.body, where)
                elif isinstance(p, ast.MatchAs) and p.pattern is None and p.name is None:
                    dflt = result(ic.body, where)
                else:
                    inner.append(f"({class_of(p, where)}, {result(ic.body, where)})")
            if rnone is None or dflt is None:
                raise TranslateError(f"{where}: inner match lacks `case None` or `case _`")
            out.append(f"MGroupSplit {c} {csplit} {lsplit} ({rnone}) [{'; '.join(inner)}] ({dflt})")
        else:
            out.append(f"MClass {c} ({result(case.body, where)})")
    return "[" + ";\n    ".join(out) + "]"


def _tr_udp_task(tree):
    cls = _find(tree, "AsyncDatagramServer")
    fn = _find(cls, "__client_coroutine")
    where = "datagram.AsyncDatagramServer.__client_coroutine"
    tries = [s for s in fn.body if isinstance(s, ast.Try)]
    src_all = ast.unparse(fn)
    if "__on_client_coroutine_task_done" not in src_all:
        raise TranslateError(f"{where}: no call to __on_client_coroutine_task_done")
    in_finally = any("__on_client_coroutine_task_done" in ast.unparse(ast.Module(body=t.finalbody, type_ignores=[])) for t in tries)
    done = _find(cls, "__on_client_coroutine_task_done")
    body = [s for s in done.body if not (isinstance(s, ast.Expr) and isinstance(s.value, ast.Constant))]
    marks_first = ast.unparse(body[0]) == "client_data.mark_done()"
    # the generated handler of servers/misc.py must wrap everything in `async with initializer(...)`
    misc = _src(SRC + "servers/misc.py")
    h = _find(_find(misc, "build_lowlevel_datagram_server_handler"), "handler")
    if len(h.body) != 1 or not isinstance(h.body[0], ast.AsyncWith) or \
            not ast.unparse(h.body[0].items[0].context_expr).startswith("initializer("):
        raise TranslateError("misc.build_lowlevel_datagram_server_handler.handler: body is not `async with initializer(...)`")
    return in_finally, marks_first


def _tr_receivers(tree):
    """_RequestReceiver.next / _BufferedRequestReceiver.next: is EVERY call of consumer.next() lexically inside a try
    statement with an `except BaseException as exc: return ThrowAction(exc)` handler?"""
    result = True
    for cls in ("_RequestReceiver", "_BufferedRequestReceiver"):
        fn = _find(tree, cls, "next")
        where = f"stream.{cls}.next"
        calls = []

        def visit(node, protected):
            if isinstance(node, ast.Try):
                prot = protected or any(
                    h.type is not None and ast.unparse(h.type) == "BaseException" and h.name and len(h.body) == 1
                    and isinstance(h.body[0], ast.Return) and ast.unparse(h.body[0].value) == f"ThrowAction({h.name})"
                    for h in node.handlers)
                for ch in node.body:
                    visit(ch, prot)
                for h in node.handlers:
                    for ch in h.body:
                        visit(ch, protected)
                for ch in node.orelse + node.finalbody:
                    visit(ch, protected)
                return
            if isinstance(node, ast.Call) and ast.unparse(node.func) == "consumer.next":
                calls.append(protected)
            for ch in ast.iter_child_nodes(node):
                visit(ch, protected)

        for st in fn.body:
            visit(st, False)
        if not calls:
            raise TranslateError(f"{where}: no consumer.next() call found")
        result = result and all(calls)
    return result


def _throwaction_classes(handlers, classes, module, assign_ok):
    """classes named by the handlers of a try whose body is `return ThrowAction(exc)` (or `action = ThrowAction(exc)`)"""
    out = []
    for h in handlers:
        if h.name is None or len(h.body) != 1:
            continue
        b = h.body[0]
        ok = isinstance(b, ast.Return) and b.value is not None and ast.unparse(b.value) == f"ThrowAction({h.name})"
        if assign_ok:
            ok = ok or (isinstance(b, ast.Assign) and ast.unparse(b.value) == f"ThrowAction({h.name})")
        if ok:
            out.extend([0] if h.type is None else classes.resolve(h.type, module))
    return out


def _wait_clauses(fn, classes, module, where, assign_ok):
    """Classes caught (and turned into a ThrowAction) around the `with ... backend.timeout(<delay>)` statement of fn."""
    found = []

    def visit(node, caught):
        if isinstance(node, ast.Try):
            here = caught + _throwaction_classes(node.handlers, classes, module, assign_ok)
            for ch in node.body:
                visit(ch, here)
            for ch in [x for h in node.handlers for x in h.body] + node.orelse + node.finalbody:
                visit(ch, caught)
            return
        if isinstance(node, ast.With) and any(".timeout(" in ast.unparse(i.context_expr) for i in node.items):
            found.append(sorted(set(caught)))
        for ch in ast.iter_child_nodes(node):
            visit(ch, caught)

    for st in fn.body:
        visit(st, [])
    if len(found) != 1:
        raise TranslateError(f"{where}: expected exactly one `with ... timeout(...)` statement, found {len(found)}")
    return found[0]


def _tr_wait_clauses(stream_tree, dgram_tree, classes):
    smod = importlib.import_module("easynetwork.lowlevel.api_async.servers.stream")
    dmod = importlib.import_module("easynetwork.lowlevel.api_async.servers.datagram")
    a = _wait_clauses(_find(stream_tree, "_RequestReceiver", "next"), classes, smod, "stream._RequestReceiver.next", False)
    b = _wait_clauses(_find(stream_tree, "_BufferedRequestReceiver", "next"), classes, smod, "stream._BufferedRequestReceiver.next", False)
    tcp = sorted(set(a) & set(b))          # what BOTH receivers turn into a ThrowAction
    udp = _wait_clauses(_find(dgram_tree, "AsyncDatagramServer", "__client_coroutine_inner_loop"), classes, dmod,
                        "datagram.AsyncDatagramServer.__client_coroutine_inner_loop", True)
    return tcp, udp


def _b(x):
    return "true" if x else "false"


# ----------------------------------------------------------------------------------------------------------------
# behavioural fallback of the translator.
# When the AST of a filter site is outside the recognised fragment (a behaviour-preserving rewrite: match -> isinstance
# chain, extracted helper, ...), the REAL function is probed on the complete canonical domain of exception values (7 naked
# kinds + every non-empty set of leaves as a flat group, plus nested / duplicated variants) and its behaviour (what
# escapes, which classified log records) is compared with the reference table of that site evaluated by a Python mirror
# of the model's semantics.  Equal everywhere -> the reference table is emitted (and says so in a comment);
# any difference -> the translator still fails closed, naming the first differing input.
# ----------------------------------------------------------------------------------------------------------------
REF_TCP_SUPPRESS = [("star", [(["ClientClosedError"], ("swallow", 1), False), (["ConnectionError"], ("swallow", 0), False)]),
                    ("plain", [(["Exception"], ("swallow", 2), False)])]
REF_TCP_DISCONNECT = [("star", [(["ConnectionError"], ("swallow", 3), False)])]
REF_UDP_AEXIT = [("split", "BaseExceptionGroup", "ClientClosedError", 1, ("suppress", 0), [("Exception", ("suppress", 2))], ("raiserest",)),
                 ("class", "ClientClosedError", ("suppress", 1)),
                 ("class", "Exception", ("suppress", 2)),
                 ("default", ("propagate",))]


def _ref_class(name):
    if isinstance(name, type):
        return name
    from easynetwork.exceptions import ClientClosedError
    return {"ClientClosedError": ClientClosedError, "ConnectionError": ConnectionError, "Exception": Exception,
            "BaseException": BaseException, "BaseExceptionGroup": BaseExceptionGroup}[name]


class _Mirror:
    """Python mirror of Conc/Isolation.v (layers_run / match_run) on exception values ('n', leaf) | ('g', [leaves])."""

    def __init__(self, udp):
        self.leaves = _leaf_classes(udp)

    def leaf_is(self, k, c):
        return issubclass(self.leaves[k], _ref_class(c))

    def group_is_exc(self, g):
        return all(self.leaf_is(k, "Exception") for k in g)

    def groupobj(self, cs, g):
        obj = ExceptionGroup if self.group_is_exc(g) else BaseExceptionGroup
        return any(issubclass(obj, _ref_class(c)) for c in cs)

    def plain_matches(self, cs, e):
        return any(self.leaf_is(e[1], c) for c in cs) if e[0] == "n" else self.groupobj(cs, e[1])

    def action(self, a, e):
        if a[0] == "swallow":
            return None, ([a[1]] if a[1] else [])
        if a[0] == "reraise":
            return e, []
        return (None, []) if self.plain_matches([a[1]], e) else (e, [])

    def layer(self, layer, e):
        kind, clauses = layer
        if kind == "plain":
            for cs, a, _c in clauses:
                if self.plain_matches(cs, e):
                    return self.action(a, e)
            return e, []
        if e[0] == "n":
            for cs, a, _c in clauses:
                if any(self.leaf_is(e[1], c) for c in cs):
                    return self.action(a, ("g", [e[1]]))
            return e, []
        rest, rr, logs = list(e[1]), [], []
        for cs, a, _c in clauses:
            if not rest:
                break
            whole = self.groupobj(cs, rest)
            m = rest if whole else [k for k in rest if any(self.leaf_is(k, c) for c in cs)]
            r = [] if whole else [k for k in rest if not any(self.leaf_is(k, c) for c in cs)]
            if not m:
                continue
            x, lg = self.action(a, ("g", m))
            rr += [] if x is None else ([x[1]] if x[0] == "n" else list(x[1]))
            logs += lg
            rest = r
        out = rr + rest
        return (("g", out) if out else None), logs

    def layers(self, layers, e):
        logs = []
        for layer in layers:
            e, lg = self.layer(layer, e)
            logs += lg
            if e is None:
                break
        return e, logs

    def mres(self, r, orig, rest):
        if r[0] == "suppress":
            return None, ([r[1]] if r[1] else [])
        return (orig, []) if r[0] == "propagate" else (rest, [])

    def match(self, cases, e):
        for c in cases:
            if c[0] == "class":
                if self.plain_matches([c[1]], e):
                    return self.mres(c[2], e, e)
            elif c[0] == "default":
                return self.mres(c[1], e, e)
            else:
                _t, cg, csplit, lsplit, rnone, inner, dflt = c
                if e[0] != "g" or not self.groupobj([cg], e[1]):
                    continue
                g = e[1]
                whole = self.groupobj([csplit], g)
                m = g if whole else [k for k in g if self.leaf_is(k, csplit)]
                r = [] if whole else [k for k in g if not self.leaf_is(k, csplit)]
                lg1 = [lsplit] if (m and lsplit) else []
                if not r:
                    x, lg = self.mres(rnone, e, e)
                    return x, lg1 + lg
                rest = ("g", r)
                res = dflt
                for cn, rr in inner:
                    if self.plain_matches([cn], rest):
                        res = rr
                        break
                x, lg = self.mres(res, e, rest)
                return x, lg1 + lg
        return e, []


def _probe_domain():
    """(spec, nested) over the complete canonical domain + some non-canonical shapes"""
    out = [([0, k], False) for k in range(N_LEAVES)]
    for n in range(1, N_LEAVES + 1):
        for sub in itertools.combinations(range(N_LEAVES), n):
            out.append(([1, list(sub)], False))
            if n >= 2:
                out.append(([1, list(sub)], True))
    out += [([1, [0, 0]], False), ([1, [3, 2, 3]], False), ([1, [6, 0, 6]], True)]
    return out


def _canon_exc(exc, udp):
    """observed exception -> None | ('n', leaf) | ('g', frozenset(leaves), is ExceptionGroup)"""
    if exc is None:
        return None
    leaves = _leaf_classes(udp)

    def code(e):
        for k, c in enumerate(leaves):
            if type(e) is c:
                return k
        return ("other", type(e).__name__)

    if isinstance(exc, BaseExceptionGroup):
        acc = []

        def walk(e):
            if isinstance(e, BaseExceptionGroup):
                for x in e.exceptions:
                    walk(x)
            else:
                acc.append(code(e))
        walk(exc)
        return ("g", frozenset(acc), isinstance(exc, ExceptionGroup))
    return ("n", code(exc))


def _canon_model(e, mirror):
    if e is None:
        return None
    if e[0] == "n":
        return ("n", e[1])
    return ("g", frozenset(e[1]), mirror.group_is_exc(e[1]))


class _ProbeLog(logging.Handler):
    def __init__(self):
        super().__init__(logging.DEBUG)
        self.codes = []

    def emit(self, record):
        c = _log_code(record.msg if isinstance(record.msg, str) else str(record.msg))
        if c:
            self.codes.append(c)


def _probe_logger():
    lg = logging.getLogger("c17.probe")
    h = _ProbeLog()
    lg.handlers[:] = [h]
    lg.setLevel(logging.DEBUG)
    lg.propagate = False
    return lg, h


def _behaves_like(site, observe, reference_eval, udp, err, what="its reference table"):
    """observe(exc) -> (escaped exception or None, log codes); reference_eval(e) -> (model exc, logs)"""
    mirror = _Mirror(udp)
    n = 0
    for spec, nested in _probe_domain():
        exc = make_exc(spec, udp, nested)
        got_exc, got_logs = observe(exc)
        e = ("n", spec[1]) if spec[0] == 0 else ("g", list(spec[1]))
        want_exc, want_logs = reference_eval(mirror, e)
        if _canon_exc(got_exc, udp) != _canon_model(want_exc, mirror) or list(got_logs) != list(want_logs):
            raise TranslateError(f"{err}; and the behaviour of {site} differs from {what} on {spec} "
                                 f"(nested={nested}): escapes {_canon_exc(got_exc, udp)} logs {got_logs}, reference "
                                 f"{_canon_model(want_exc, mirror)} logs {want_logs}")
        n += 1
    return n


def _fallback_tcp_suppress(err, layers=None, what="its reference table"):
    import types
    from easynetwork.servers.async_tcp import AsyncTCPNetworkServer
    cm = getattr(AsyncTCPNetworkServer, "_AsyncTCPNetworkServer__suppress_and_log_remaining_exception")
    lg, h = _probe_logger()
    fake = types.SimpleNamespace(logger=lg)

    def observe(exc):
        del h.codes[:]
        try:
            with cm(fake, client_address=("127.0.0.1", 1)):
                raise exc
        except BaseException as out:  # noqa: BLE001
            return out, list(h.codes)
        return None, list(h.codes)

    return _behaves_like("async_tcp.__suppress_and_log_remaining_exception", observe,
                         lambda m, e: m.layers(layers or REF_TCP_SUPPRESS, e), False, err, what)


def _fallback_udp_aexit(err, cases=None, what="its reference table"):
    import types
    from easynetwork.servers import async_udp
    lg, h = _probe_logger()
    server = types.SimpleNamespace(extra=lambda *a, **k: socket.AF_INET)
    ll = types.SimpleNamespace(address=("127.0.0.1", 5), server=server)

    def observe(exc):
        del h.codes[:]
        ctx = async_udp._ClientContext(ll, {}, None, lg)
        loop = asyncio.new_event_loop()
        try:
            try:
                swallowed = loop.run_until_complete(ctx.__aexit__(type(exc), exc, None))
            except BaseException as out:  # noqa: BLE001
                return out, list(h.codes)
        finally:
            loop.close()
        return (None if swallowed else exc), list(h.codes)

    return _behaves_like("async_udp._ClientContext.__aexit__", observe, lambda m, e: m.match(cases or REF_UDP_AEXIT, e), True,
                         err, what)


def _fallback_misc_stream(err, layers=None, what="its reference table"):
    """disconnect_client's filter and whether it is registered only once on_connection() has completed"""
    from easynetwork.servers.handlers import AsyncStreamRequestHandler
    from easynetwork.servers.misc import build_lowlevel_stream_server_handler
    lg, h = _probe_logger()
    state = {}

    class RH(AsyncStreamRequestHandler):
        async def on_connection(self, client):
            if state.get("conn_exc") is not None:
                raise state["conn_exc"]

        async def handle(self, client):
            yield

        async def on_disconnection(self, client):
            state["disc_called"] = True
            state["disc_inside_initializer"] = not state.get("initializer_exited", False)
            if state.get("disc_exc") is not None:
                raise state["disc_exc"]

    class FakeClient:
        def is_closing(self):
            return False

    @contextlib.asynccontextmanager
    async def initializer(ll):
        try:
            yield FakeClient()
        finally:
            state["initializer_exited"] = True

    handler = build_lowlevel_stream_server_handler(initializer, RH(), logger=lg)

    def run(conn_exc, disc_exc):
        state.clear()
        state.update(conn_exc=conn_exc, disc_exc=disc_exc)
        del h.codes[:]

        async def drive():
            gen = handler(object())
            try:
                await gen.asend(None)
            except BaseException as out:  # noqa: BLE001
                return out
            try:
                await gen.aclose()
            except BaseException as out:  # noqa: BLE001
                return out
            return None

        loop = asyncio.new_event_loop()
        try:
            return loop.run_until_complete(drive())
        finally:
            loop.close()

    n = _behaves_like("misc.build_lowlevel_stream_server_handler.handler.disconnect_client",
                      lambda exc: (run(None, exc), list(h.codes)), lambda m, e: m.layers(layers or REF_TCP_DISCONNECT, e), False,
                      err, what)
    run(None, None)
    if not state.get("disc_called") or not state.get("disc_inside_initializer"):
        raise TranslateError(f"{err}; and on_disconnection() does not run inside the initializer's context (the per-client "
                             "suppressor would not cover it)")
    run(ValueError("on_connection fails"), None)
    disc_after = not state.get("disc_called", False)
    return n, disc_after


# ----------------------------------------------------------------------------------------------------------------
# behavioural probes of the remaining sites.
# Every parameter of ParamsC17.v has two sources: the ast translator above (preferred: it reads the clause structure) and
# a probe of the REAL function / closure, reached through the library's own composition interfaces (a scripted listener
# captures the per-connection coroutine the real server hands to it, a scripted accepted-socket factory / wrap() /
# consumer / backend.timeout() / transport raises each exception class of the universe at the site).
#   AST recognised + probe ran  -> they must agree (else fail closed, naming the difference)
#   AST outside the fragment    -> the probe alone decides: booleans / class lists / stack orders are synthesised from the
#                                  observations; filter tables are the site's reference table when the observed behaviour
#                                  equals it on the complete domain (else fail closed, naming the differing input)
#   probe cannot reach the site -> AST alone; both unavailable -> fail closed.
# ----------------------------------------------------------------------------------------------------------------
class _Unreachable(Exception):
    """the probe could not be set up / could not reach the site (nothing is known about the behaviour)"""


class _Captured(Exception):
    pass


def _probe_run(coro, limit=600):     # generous: only reached when a probe is really stuck
    loop = asyncio.new_event_loop()
    try:
        return loop.run_until_complete(asyncio.wait_for(coro, limit))
    finally:
        with contextlib.suppress(BaseException):
            loop.run_until_complete(loop.shutdown_asyncgens())
        loop.close()


def _real_backend():
    from easynetwork.lowlevel.api_async.backend.utils import new_builtin_backend
    return new_builtin_backend("asyncio")


class _BackendProxy:
    """the real backend, except that arming a timeout raises the scripted exception"""

    def __init__(self, real, timeout_exc=None):
        self._real, self._texc = real, timeout_exc

    def timeout(self, delay):
        if self._texc is not None:
            raise self._texc
        return self._real.timeout(delay)

    def __getattr__(self, n):
        return getattr(self._real, n)


def _probe_transport_class():
    from easynetwork.lowlevel.api_async.transports import abc as T

    class RTransport(T.AsyncStreamTransport):
        def __init__(self, backend, chunks=(), recv_exc=None, attrs=None, on_close=None):
            super().__init__()
            self._b, self.chunks, self.recv_exc, self.closed = backend, list(chunks), recv_exc, 0
            self._attrs, self._on_close = attrs or {}, on_close

        def backend(self):
            return self._b

        def is_closing(self):
            return bool(self.closed)

        async def aclose(self):
            if self._on_close is not None:
                self._on_close()
            self.closed += 1

        async def recv(self, n):
            if self.recv_exc is not None:
                raise self.recv_exc
            return self.chunks.pop(0) if self.chunks else b""

        async def recv_into(self, buf):
            if self.recv_exc is not None:
                raise self.recv_exc
            d = self.chunks.pop(0) if self.chunks else b""
            buf[:len(d)] = d
            return len(d)

        async def send_all(self, data):
            pass

        async def send_eof(self):
            pass

        @property
        def extra_attributes(self):
            return self._attrs

    return RTransport


def _contains(tree, obj):
    if tree is obj:
        return True
    return isinstance(tree, BaseExceptionGroup) and any(_contains(s, obj) for s in tree.exceptions)


def _full_domain():
    return [(None, False)] + _probe_domain()


# ---- plain filter tables on real exception objects ------------------------------------------------------------------
REF_LISTENER = [(["asyncio.CancelledError"], ("reraise",), True), (["BaseException"], ("reraiseunless", "Exception"), True)]
REF_TLS_WRAP = [(["asyncio.CancelledError"], ("reraise",), True), (["Exception"], ("swallow", 0), True)]
REF_ADAPTER_CLOSE = [(["OSError"], ("swallow", 0), False)]
_REF_OBJS = {"asyncio.CancelledError": asyncio.CancelledError, "BaseException": BaseException, "Exception": Exception,
             "OSError": OSError, "ConnectionError": ConnectionError}


def _ref_plain(ref):
    return [(tuple(_REF_OBJS[c] for c in cs), (a[0], _REF_OBJS[a[1]]) if a[0] == "reraiseunless" else a, closes)
            for cs, a, closes in ref]


def _render_plain(ref, classes):
    cl = []
    for cs, a, closes in ref:
        ids = [classes.add_obj(c, _REF_OBJS[c]) for c in cs]
        act = f"ASwallow {a[1]}" if a[0] == "swallow" else "AReraise" if a[0] == "reraise" else \
            f"AReraiseUnless {classes.add_obj(a[1], _REF_OBJS[a[1]])}"
        cl.append("{| c_classes := [%s]; c_action := %s; c_closes := %s |}" % ("; ".join(map(str, ids)), act, _b(closes)))
    return "LPlain [" + ";\n      ".join(cl) + "]"


def _parse_plain(text, classes, where):
    """the rendered `LPlain [...]` of the ast translator -> [(class objects, action, closes)]"""
    import re
    if not text.startswith("LPlain "):
        raise TranslateError(f"{where}: not a plain try statement")
    out = []
    for m in re.finditer(r"c_classes := \[([^\]]*)\]; c_action := (\w+)(?: (\d+))?; c_closes := (true|false)", text):
        objs = tuple(classes.objs[int(x)] for x in m.group(1).split(";") if x.strip())
        act = ("swallow", int(m.group(3))) if m.group(2) == "ASwallow" else ("reraise",) if m.group(2) == "AReraise" \
            else ("reraiseunless", classes.objs[int(m.group(3))])
        out.append((objs, act, m.group(4) == "true"))
    return out


def _parse_layers(texts, classes):
    """rendered `LStar [...]` / `LPlain [...]` of the ast translator -> the mirror's layer structures (class objects)"""
    out = []
    for text in texts:
        kind = "star" if text.startswith("LStar ") else "plain"
        out.append((kind, [(list(objs), act, closes) for objs, act, closes in _parse_plain("LPlain " + text.split(" ", 1)[1], classes, "")]))
    return out


def _parse_mcases(text, classes):
    import re

    def res(s):
        s = s.strip()
        if s.startswith("MSuppress"):
            return ("suppress", int(s.split()[1]))
        return ("propagate",) if s == "MPropagate" else ("raiserest",)

    out = []
    for item in [x.strip() for x in text.strip()[1:-1].split(";\n")]:
        if m := re.fullmatch(r"MClass (\d+) \((.*)\)", item):
            out.append(("class", classes.objs[int(m.group(1))], res(m.group(2))))
        elif m := re.fullmatch(r"MDefault \((.*)\)", item):
            out.append(("default", res(m.group(1))))
        elif m := re.fullmatch(r"MGroupSplit (\d+) (\d+) (\d+) \((.*?)\) \[(.*)\] \((.*?)\)", item):
            inner = [(classes.objs[int(a)], res(b)) for a, b in re.findall(r"\((\d+), ([^)]*)\)", m.group(5))]
            out.append(("split", classes.objs[int(m.group(1))], classes.objs[int(m.group(2))], int(m.group(3)),
                        res(m.group(4)), inner, res(m.group(6))))
        else:
            raise TranslateError(f"cannot re-read the rendered match case {item!r}")
    return out


def _plain_eval(clauses, exc):
    """-> (escapes, the matching handler closes the connection)"""
    for objs, act, closes in clauses:
        if isinstance(exc, objs):
            if act[0] == "swallow":
                return False, closes
            if act[0] == "reraise":
                return True, closes
            return (not isinstance(exc, act[1])), closes
    return True, False


def _check_plain(site, observed, clauses, what):
    """observed: [(spec, nested, exc, escaped exception or None, closed)]"""
    for spec, nested, exc, escaped, closed in observed:
        if exc is None:
            continue
        want_esc, want_closed = _plain_eval(clauses, exc)
        got_esc = escaped is not None
        if got_esc and not _contains(escaped, exc):
            raise TranslateError(f"{site}: with {spec} (nested={nested}) raised at the site, a different exception escapes: {escaped!r}")
        if got_esc != want_esc or (closed is not None and bool(closed) != want_closed):
            raise TranslateError(f"the behaviour of {site} differs from {what} on {spec} (nested={nested}): "
                                 f"escapes={got_esc} connection closed={closed}, table says escapes={want_esc} closed={want_closed}")
    return len(observed)


# ---- the probes ----------------------------------------------------------------------------------------------------
def _observe_listener(domain):
    """client_connection_task of the real ListenerSocketAdapter.serve(): a scripted accepted-socket factory raises each
    exception of the domain from connect() (None: it returns a stream) -> [(spec, nested, exc, escaped, socket closed)]"""
    from easynetwork.lowlevel.api_async.backend._asyncio.stream import listener as LM
    real = _real_backend()

    class Factory(LM.AbstractAcceptedSocketFactory):
        __slots__ = ("exc", "sock", "logged")

        def log_connection_error(self, logger, exc):
            self.logged.append(exc)

        async def connect(self, backend, sock):
            self.sock = sock
            if self.exc is not None:
                raise self.exc
            return "STREAM"

    async def go():
        res = []
        for spec, nested in domain:
            exc = None if spec is None else make_exc(spec, False, nested)
            fac = Factory()
            fac.exc, fac.sock, fac.logged = exc, None, []
            ls = socket.socket()
            ls.bind(("127.0.0.1", 0))
            ls.listen(8)
            lst = LM.ListenerSocketAdapter(real, ls, fac)
            started = []

            async def handler(stream):
                started.append(stream)

            serve = asyncio.ensure_future(lst.serve(handler))
            c = socket.socket()
            c.setblocking(False)
            with contextlib.suppress(BlockingIOError):
                c.connect(ls.getsockname())
            try:
                for _ in range(100000):                # condition, not time: the factory has been asked (bound only for a dead loop)
                    if fac.sock is not None or serve.done():
                        break
                    await asyncio.sleep(0.001)
                for _ in range(10):
                    await asyncio.sleep(0)
                if fac.sock is None:
                    raise _Unreachable("the accepted-socket factory of the listener was never asked to connect")
                escaped = serve.exception() if serve.done() and not serve.cancelled() else None
                closed = fac.sock.fileno() == -1
                if exc is None and (started != ["STREAM"] or closed or escaped is not None):
                    raise TranslateError("listener.ListenerSocketAdapter.serve.client_connection_task: a successfully "
                                         f"accepted connection does not start the handler with its stream (started={started}, "
                                         f"socket closed={closed}, escaped={escaped!r})")
                if exc is not None and started:
                    raise TranslateError("listener.ListenerSocketAdapter.serve.client_connection_task: the handler is started "
                                         f"although connect() raised {spec}")
                res.append((spec, nested, exc, escaped, closed))
            finally:
                serve.cancel()
                with contextlib.suppress(BaseException):
                    await serve
                with contextlib.suppress(BaseException):
                    await lst.aclose()
                c.close()
                if fac.sock is not None:
                    fac.sock.close()
        return res

    return _probe_run(go(), 1800)


def _observe_tls(domain, standard_compatible):
    """tls_handler_wrapper of the real AsyncTLSListener.serve(): captured through a scripted inner listener; a scripted
    AsyncTLSStreamTransport.wrap() raises each exception of the domain / returns a wrapped stream"""
    from easynetwork.lowlevel.api_async.transports import tls as TM
    from easynetwork.lowlevel.api_async.transports.abc import AsyncListener
    real = _real_backend()
    RTransport = _probe_transport_class()
    got, reported, called, script = [], [], [], {}

    class L(AsyncListener):
        def backend(self):
            return real

        def is_closing(self):
            return True

        async def aclose(self):
            pass

        async def serve(self, handler, task_group=None):
            got.append(handler)
            raise _Captured

        @property
        def extra_attributes(self):
            return {}

    async def handler(stream):
        called.append(stream)

    async def capture():
        lst = TM.AsyncTLSListener(L(), ssl.SSLContext(ssl.PROTOCOL_TLS_SERVER), handshake_timeout=1.0, shutdown_timeout=1.0,
                                  standard_compatible=standard_compatible, handshake_error_handler=reported.append)
        try:
            await lst.serve(handler)
        except _Captured:
            pass

    _probe_run(capture())
    if len(got) != 1:
        raise _Unreachable("AsyncTLSListener.serve() did not hand a per-connection coroutine to the wrapped listener")
    wrapper = got[0]
    orig = TM.AsyncTLSStreamTransport.__dict__["wrap"]

    async def wrap(cls_, stream, *a, **kw):
        script["stream"] = stream
        if script["exc"] is not None:
            raise script["exc"]
        return "WRAPPED"

    TM.AsyncTLSStreamTransport.wrap = classmethod(wrap)
    res = []
    try:
        for spec, nested in domain:
            exc = None if spec is None else make_exc(spec, False, nested)
            script.update(exc=exc, stream=None)
            del called[:]
            tr = RTransport(real)

            async def go():
                try:
                    await wrapper(tr)
                except BaseException as out:  # noqa: BLE001
                    return out
                return None

            escaped = _probe_run(go())
            if script["stream"] is not tr:
                raise _Unreachable("the captured coroutine did not call AsyncTLSStreamTransport.wrap() on the accepted stream")
            if exc is None and (called != ["WRAPPED"] or tr.closed or escaped is not None):
                raise TranslateError("tls.AsyncTLSListener.serve.tls_handler_wrapper: after a successful handshake the handler "
                                     f"is not called with the wrapped stream (called with {called}, raw stream closed="
                                     f"{tr.closed}, escaped={escaped!r})")
            if exc is not None and called:
                raise TranslateError(f"tls.AsyncTLSListener.serve.tls_handler_wrapper: handler called although wrap() raised {spec}")
            res.append((spec, nested, exc, escaped, tr.closed > 0))
    finally:
        TM.AsyncTLSStreamTransport.wrap = orig
    return res


def _observe_adapter_close():
    """AsyncioTransportStreamSocketAdapter.aclose() on a real socket transport whose write_eof() raises"""
    from easynetwork.lowlevel.api_async.backend._asyncio.stream import socket as SM
    real = _real_backend()

    class TProxy:
        def __init__(self, t, exc):
            self._t, self._exc, self.closed = t, exc, 0

        def write_eof(self):
            if self._exc is not None:
                raise self._exc
            return self._t.write_eof()

        def can_write_eof(self):
            return True

        def close(self):
            self.closed += 1
            return self._t.close()

        def __getattr__(self, n):
            return getattr(self._t, n)

    import errno as _errno
    excs = [("success", None)] + [([0, k], make_leaf(k)) for k in range(N_LEAVES)] + \
        [(f"OSError({e})", OSError(getattr(_errno, e), "injected at write_eof")) for e in CLOSE_ERRNOS]
    res = []
    for spec, exc in excs:
        async def go():
            a, b = socket.socketpair()
            loop = asyncio.get_running_loop()
            tr, proto = await loop.connect_accepted_socket(lambda: SM.StreamReaderBufferedProtocol(loop=loop), a)
            p = TProxy(tr, exc)
            ad = SM.AsyncioTransportStreamSocketAdapter(real, p, proto)
            try:
                await asyncio.wait_for(ad.aclose(), 120)
                out = None
            except BaseException as o:  # noqa: BLE001
                out = o
            b.close()
            tr.close()
            await asyncio.sleep(0)
            return out, p.closed

        out, closed = _probe_run(go())
        if not closed:
            raise TranslateError(f"socket.AsyncioTransportStreamSocketAdapter.aclose: the transport is not closed when write_eof() "
                                 f"raises {spec}")
        res.append((spec, False, exc, out, None))
    return res


def _observe_receivers():
    """_RequestReceiver / _BufferedRequestReceiver .next(): -> (every exception raised by consumer.next() -- on the
    buffered fast path and after a recv -- comes back as a ThrowAction, leaves that come back as a ThrowAction when
    arming the yielded delay raises them / when the wait inside raises them)"""
    import dataclasses
    from easynetwork.lowlevel._asyncgen import ThrowAction
    from easynetwork.lowlevel.api_async.servers import stream as S
    real = _real_backend()
    RTransport = _probe_transport_class()

    class FakeConsumer:
        def __init__(self, script):
            self.script, self.buf = list(script), bytearray(64)

        def next(self, data):
            act = self.script.pop(0) if self.script else ("more",)
            if act[0] == "raise":
                raise act[1]
            raise StopIteration

        def get_write_buffer(self):
            return memoryview(self.buf)

        def clear(self):
            pass

    def receiver(idx, transport, consumer):
        cls = getattr(S, ("_RequestReceiver", "_BufferedRequestReceiver")[idx], None)
        if cls is None:
            raise _Unreachable("request receiver classes not found in servers/stream.py")
        kw = dict(transport=transport, consumer=consumer, disconnect_error_filter=None)
        if "max_recv_size" in {f.name for f in dataclasses.fields(cls)}:
            kw["max_recv_size"] = 1024
        return cls(**kw)

    async def outcome(rcv, timeout, exc):
        try:
            act = await rcv.next(timeout)
        except StopAsyncIteration:
            return False
        except BaseException:  # noqa: BLE001
            return False
        return isinstance(act, ThrowAction) and act.exception is exc

    protected, conv = True, []
    for k in range(N_LEAVES):
        armed = True
        for idx in (0, 1):
            for script in (["raise"], ["more", "raise"]):
                exc = make_leaf(k)
                sc = [("raise", exc) if a == "raise" else ("more",) for a in script]

                async def go():
                    return await outcome(receiver(idx, RTransport(real, [b"abc"]), FakeConsumer(sc)), None, exc)

                if not _probe_run(go()):
                    protected = False
            for where in ("arm", "inside"):
                exc = make_leaf(k)

                async def go2():
                    b = _BackendProxy(real, exc if where == "arm" else None)
                    tr = RTransport(b, [], recv_exc=exc if where == "inside" else None)
                    return await outcome(receiver(idx, tr, FakeConsumer([])), 1.0, exc)

                if not _probe_run(go2()):
                    armed = False
        if armed:
            conv.append(k)
    return protected, conv


def _capture_stream_handler(cb):
    """the per-connection coroutine function the real AsyncStreamServer hands to its listener"""
    from easynetwork.lowlevel.api_async.servers import stream as S
    from easynetwork.lowlevel.api_async.transports.abc import AsyncListener
    from easynetwork.protocol import StreamProtocol
    from easynetwork.serializers.line import StringLineSerializer
    real = _real_backend()
    got = []

    class L(AsyncListener):
        def backend(self):
            return real

        def is_closing(self):
            return True

        async def aclose(self):
            pass

        async def serve(self, handler, task_group=None):
            got.append(handler)
            raise _Captured

        @property
        def extra_attributes(self):
            return {}

    async def go():
        srv = S.AsyncStreamServer(L(), StreamProtocol(StringLineSerializer()), 1024)
        try:
            await srv.serve(cb)
        except _Captured:
            pass

    _probe_run(go())
    if len(got) != 1:
        raise _Unreachable("AsyncStreamServer.serve() did not hand a per-connection coroutine to its listener")
    return real, got[0]


def _observe_stream_task():
    """the connection is closed even when creating the handler generator fails (forced close registered first)"""
    RTransport = _probe_transport_class()
    ok = True
    for k in range(N_LEAVES):
        exc = make_leaf(k)

        def cb(client):
            raise exc

        real, handler = _capture_stream_handler(cb)

        async def go():
            tr = RTransport(real)
            try:
                await handler(tr)
            except BaseException as out:  # noqa: BLE001
                if out is not exc:
                    raise _Unreachable(f"the captured connection coroutine failed before creating the handler: {out!r}")
            else:
                raise _Unreachable("the captured connection coroutine did not create the handler")
            return tr.closed

        if not _probe_run(go()):
            ok = False
    return ok


def _dgram_server(cb, backend):
    from easynetwork.lowlevel.api_async.servers import datagram as D
    from easynetwork.lowlevel.api_async.transports.abc import AsyncDatagramListener
    from easynetwork.protocol import DatagramProtocol
    StringLineSerializer = _crashing_serializer
    got = []

    class L(AsyncDatagramListener):
        def backend(self):
            return backend

        def is_closing(self):
            return True

        async def aclose(self):
            pass

        async def send_to(self, data, address):
            pass

        async def serve(self, handler, task_group=None):
            got.append(handler)
            await asyncio.Event().wait()

        @property
        def extra_attributes(self):
            return {}

    return D.AsyncDatagramServer(L(), DatagramProtocol(StringLineSerializer())), got


def _observe_udp_task():
    """-> (after a handler failure -- of every leaf class, escaping or not -- a later datagram of the address starts a
    fresh handler, leaves that are thrown into the handler when arming its yielded delay raises them)"""
    addr = ("127.0.0.1", 9)
    fresh_all, conv = True, []

    async def drive(srv, got, cb, datagrams):
        serve = asyncio.ensure_future(srv.serve(cb))
        for _ in range(1000):
            if got or serve.done():
                break
            await asyncio.sleep(0)
        if not got:
            serve.cancel()
            raise _Unreachable("AsyncDatagramServer.serve() did not hand a datagram callback to its listener")
        for d in datagrams:
            with contextlib.suppress(BaseException):
                await got[0](d, addr)
            for _ in range(5):
                await asyncio.sleep(0)
        serve.cancel()
        with contextlib.suppress(BaseException):
            await serve

    for k in range(N_LEAVES):
        exc = make_leaf(k, True)
        state = {"gens": 0}

        async def cb(ctx):
            state["gens"] += 1
            if state["gens"] == 1:
                raise exc
            yield

        async def go():
            srv, got = _dgram_server(cb, _real_backend())
            await drive(srv, got, cb, [b"x\n", b"y\n"])

        _probe_run(go())
        if state["gens"] < 1:
            raise _Unreachable("the datagram callback never created a handler")
        if state["gens"] < 2:
            fresh_all = False
        thrown = []

        async def cb2(ctx):
            yield
            try:
                yield 1.0
            except BaseException as t:  # noqa: BLE001
                thrown.append(t)

        async def go2():
            srv, got = _dgram_server(cb2, _BackendProxy(_real_backend(), exc))
            await drive(srv, got, cb2, [b"x\n"])

        _probe_run(go2())
        if thrown and thrown[0] is exc:
            conv.append(k)
    # the FIRST datagram of a handler run makes protocol.build_packet_from_datagram() crash: thrown into the handler?
    thrown1 = []

    async def cb3(ctx):
        try:
            yield
        except BaseException as t:  # noqa: BLE001
            if not isinstance(t, GeneratorExit):
                thrown1.append(t)

    async def go3():
        srv, got = _dgram_server(cb3, _real_backend())
        await drive(srv, got, cb3, [b"CRASH\n"])

    _probe_run(go3())
    return fresh_all, conv, bool(thrown1) and isinstance(thrown1[0], Exception)


def _observe_dgram_initializer():
    """misc.build_lowlevel_datagram_server_handler: a failure of the request handler passes through the initializer's
    context manager (= _ClientContext.__aexit__ sees it)"""
    from easynetwork.servers.handlers import AsyncDatagramRequestHandler
    from easynetwork.servers.misc import build_lowlevel_datagram_server_handler
    seen = []

    class RH(AsyncDatagramRequestHandler):
        async def handle(self, client):
            if mode[0] == "before":
                raise boom[0]
            yield
            raise boom[0]

    @contextlib.asynccontextmanager
    async def initializer(ctx):
        try:
            yield object()
        except BaseException as exc:  # noqa: BLE001
            seen.append(exc)
            raise

    mode, boom = ["before"], [None]
    handler = build_lowlevel_datagram_server_handler(initializer, RH())
    ok = True
    for m in ("before", "after"):
        mode[0], boom[0] = m, ValueError("handler fails " + m)
        del seen[:]

        async def go():
            gen = handler(object())
            with contextlib.suppress(BaseException):
                await gen.asend(None)
                await gen.asend("request")

        _probe_run(go())
        ok = ok and any(s is boom[0] for s in seen)
    return ok


class _Events(list):
    client = None

    def note(self, ev):
        self.sample()
        self.append(ev)

    def sample(self):
        # _on_disconnect() is seen through the public client.is_closing()
        if self.client is not None and "SOnDisconnect" not in self and self.client.is_closing():
            self.append("SOnDisconnect")


def _find_initializer(server):
    import inspect
    cls = type(server)
    name = f"_{cls.__name__}__client_initializer"
    if hasattr(server, name):
        return getattr(server, name)
    cands = [n for n, f in vars(cls).items() if callable(f) and inspect.isasyncgenfunction(getattr(f, "__wrapped__", None))]
    if len(cands) != 1:
        raise _Unreachable(f"cannot identify the client initializer of {cls.__name__} (candidates: {cands})")
    return getattr(server, cands[0])


def _observe_tcp_init(flavour):
    """the real AsyncTCPNetworkServer.__client_initializer on a scripted lowlevel client (flavour 0 plain, 1 TLS
    standard-compatible, 2 TLS not standard-compatible): a generic exception is thrown at its yield; the exit callbacks
    are seen through their effects (bind release, suppressor's log record, fileno() of the linger helper, aclose() of the
    transport, the 'disconnected' record, client.is_closing()) -> (items in push order, what escapes)"""
    from easynetwork.lowlevel._stream import StreamDataProducer
    from easynetwork.lowlevel.api_async.servers.stream import ConnectedStreamClient
    from easynetwork.lowlevel.socket import INETSocketAttribute, TLSAttribute
    from easynetwork.protocol import StreamProtocol
    from easynetwork.serializers.line import StringLineSerializer
    from easynetwork.servers.async_tcp import AsyncTCPNetworkServer
    from easynetwork.servers.handlers import AsyncStreamRequestHandler
    real = _real_backend()
    RTransport = _probe_transport_class()
    events = _Events()
    lg = logging.getLogger("c17.probe.init")

    class H(logging.Handler):
        def emit(self, record):
            msg = record.msg if isinstance(record.msg, str) else str(record.msg)
            if "disconnected" in msg:
                events.note("SLogDisconnected")
            elif _log_code(msg) == 2 and "SSuppress" not in events:
                events.note("SSuppress")

    lg.handlers[:] = [H(logging.DEBUG)]
    lg.setLevel(logging.DEBUG)
    lg.propagate = False

    class RH(AsyncStreamRequestHandler):
        async def handle(self, client):
            yield

    proto = StreamProtocol(StringLineSerializer())
    ls = socket.socket()
    ls.bind(("127.0.0.1", 0))
    ls.listen(1)
    c = socket.socket()
    c.connect(ls.getsockname())
    s, _ = ls.accept()

    class RecSock:
        def fileno(self):
            if "SLinger" not in events:
                events.note("SLinger")
            return s.fileno()

        def __getattr__(self, n):
            return getattr(s, n)

    rs = RecSock()
    attrs = {INETSocketAttribute.socket: lambda: rs, INETSocketAttribute.family: lambda: s.family,
             INETSocketAttribute.sockname: lambda: s.getsockname(), INETSocketAttribute.peername: lambda: s.getpeername()}
    if flavour in (1, 2):
        attrs[TLSAttribute.sslcontext] = lambda: ssl.SSLContext(ssl.PROTOCOL_TLS_SERVER)
        attrs[TLSAttribute.standard_compatible] = lambda: flavour == 1
    thrown = ValueError("thrown at the yield of the client initializer")
    bind_name = "_bind_server"
    had_own = bind_name in AsyncTCPNetworkServer.__dict__
    orig_bind = getattr(AsyncTCPNetworkServer, bind_name, None)

    async def go():
        server = AsyncTCPNetworkServer("127.0.0.1", 0, proto, RH(), logger=lg)
        init = _find_initializer(server)
        tr = RTransport(real, attrs=attrs, on_close=lambda: events.note("SAclosing"))
        ll = ConnectedStreamClient(_transport=tr, _producer=StreamDataProducer(proto))
        cm = init(ll)
        client = await cm.__aenter__()
        if client is None:
            raise _Unreachable("the client initializer did not yield a client for the scripted connection")
        del events[:]
        events.client = client
        try:
            swallowed = await cm.__aexit__(type(thrown), thrown, thrown.__traceback__)
            esc = None if swallowed else thrown
        except BaseException as out:  # noqa: BLE001
            esc = out
        events.sample()
        events.client = None
        with contextlib.suppress(BaseException):
            await server.server_close()
        return esc

    patched = False
    try:
        if orig_bind is not None:
            def bind(self_):
                inner = orig_bind(self_)

                @contextlib.contextmanager
                def cm_():
                    with inner:
                        try:
                            yield
                        finally:
                            events.note("SBind")
                return cm_()

            AsyncTCPNetworkServer._bind_server = bind
            patched = True
        esc = _probe_run(go())
    finally:
        if patched:
            if had_own:
                AsyncTCPNetworkServer._bind_server = orig_bind
            else:
                delattr(AsyncTCPNetworkServer, bind_name)
        for x in (c, s, ls):
            x.close()
        lg.handlers[:] = []
    return list(reversed(events)), esc, thrown


# ---- AST + probe -> parameter ------------------------------------------------------------------------------------------
def _site(name, notes, ast_fn, beh_fn):
    """ast_fn() -> value (TranslateError: outside the fragment); beh_fn(ast value | None) -> value: checks the agreement
    when an AST value is given, derives the value from the observations otherwise; _Unreachable: probe cannot reach."""
    try:
        a, aerr = ast_fn(), None
    except TranslateError as exc:
        a, aerr = None, exc
    try:
        b = beh_fn(a)
    except TranslateError as exc:
        if aerr is not None:
            raise TranslateError(f"{aerr}; and {exc}")
        raise
    except _Unreachable as exc:
        if aerr is not None:
            raise TranslateError(f"{aerr}; and the behavioural probe cannot reach the site: {exc}")
        notes.append(f"{name}: AST only -- the behavioural probe cannot reach the site: {exc}")
        return a
    except Exception as exc:      # the probe itself crashed: nothing is known from it
        if aerr is not None:
            raise TranslateError(f"{aerr}; and the behavioural probe crashed: {exc.__class__.__name__}: {exc}")
        notes.append(f"{name}: AST only -- the behavioural probe crashed: {exc.__class__.__name__}: {exc}")
        return a
    if aerr is not None:
        notes.append(f"{name}: behavioural; AST: {aerr}")
    return b


def _leaves_matching(ids, classes, udp):
    leaves = _leaf_classes(udp)
    return [k for k in range(N_LEAVES) if any(issubclass(leaves[k], classes.objs[i]) for i in ids)]


def _classes_for_leaves(conv, classes, udp, where):
    """a class list whose instances among the leaves are exactly conv"""
    leaves = _leaf_classes(udp)
    if len(conv) == N_LEAVES:
        return [0]
    ids = []
    for k in conv:
        obj = leaves[k]
        ids.append(classes.add_obj(obj.__name__ if obj.__module__ == "builtins" else f"{obj.__module__}.{obj.__qualname__}", obj))
    if _leaves_matching(ids, classes, udp) != list(conv):
        raise TranslateError(f"{where}: the set of classes turned into a ThrowAction ({conv}) is not closed under subclassing")
    return ids


def _agree(notes, name, check):
    """an AST-recognised site whose real function is probed as well: a difference fails closed, a probe that cannot run
    leaves the AST value alone (and says so)"""
    try:
        check()
    except TranslateError:
        raise
    except Exception as exc:  # noqa: BLE001
        notes.append(f"{name}: AST only -- the behavioural probe could not run: {exc.__class__.__name__}: {exc}")


def _site_plain(name, notes, classes, ast_fn, observe, ref, extra_domains=()):
    def beh(a):
        observed = observe()
        if a is not None:
            _check_plain(name, observed, _parse_plain(a, classes, name), "the table read from its source")
            return a
        try:
            n = _check_plain(name, observed, _ref_plain(ref), "its reference table")
        except TranslateError as differs:
            # not the reference behaviour: synthesise a table from the observations (and verify it on all of them)
            table = _synth_plain(observed)
            if table is None:
                raise
            try:
                _check_plain(name, observed, [(objs, a, cl) for _n, objs, a, cl in table], "any single plain try statement")
            except TranslateError:
                raise differs
            notes.append(f"{name}: table synthesised from {len(observed)} probes of the real closure ({differs})")
            cl = []
            for names_, objs, a, closes in table:
                ids = [classes.add_obj(nm, ob) for nm, ob in zip(names_, objs)]
                act = "ASwallow 0" if a[0] == "swallow" else "AReraise"
                cl.append("{| c_classes := [%s]; c_action := %s; c_closes := %s |}" % ("; ".join(map(str, ids)), act, _b(closes)))
            return "LPlain [" + ";\n      ".join(cl) + "]"
        notes.append(f"{name}: {n} probes of the real closure equal the reference table")
        return _render_plain(ref, classes)
    return _site(name, notes, ast_fn, beh)


def _synth_universe():
    from easynetwork.exceptions import ClientClosedError, StreamProtocolParseError
    u = [("BaseException", BaseException), ("Exception", Exception), ("OSError", OSError), ("ConnectionError", ConnectionError),
         ("TimeoutError", TimeoutError), ("ValueError", ValueError), ("ConnectionResetError", ConnectionResetError),
         (f"{ClientClosedError.__module__}.{ClientClosedError.__qualname__}", ClientClosedError),
         (f"{StreamProtocolParseError.__module__}.{StreamProtocolParseError.__qualname__}", StreamProtocolParseError),
         ("BaseExceptionGroup", BaseExceptionGroup), ("ExceptionGroup", ExceptionGroup)]
    return u


def _synth_plain(observed):
    """observations [(spec, nested, exc, escaped, closed)] -> [(names, class objects, action, closes)] | None:
    one swallowing clause naming the maximal classes all of whose observed instances are swallowed, then one re-raising
    clause for the classes all of whose observed instances escape with the connection closed"""
    obs = [(exc, escaped is not None, closed) for _s, _n, exc, escaped, closed in observed if exc is not None]

    def maximal(pred):
        good = []
        for nm, ob in _synth_universe():
            inst = [o for o in obs if isinstance(o[0], ob)]
            if inst and all(pred(o) for o in inst):
                good.append((nm, ob))
        return [(nm, ob) for nm, ob in good if not any(o2 is not ob and issubclass(ob, o2) for _n2, o2 in good)]

    sw = maximal(lambda o: not o[1])
    table = []
    if sw:
        closes = {bool(o[2]) for o in obs if not o[1] and o[2] is not None}
        if len(closes) > 1:
            return None
        table.append(([n for n, _ in sw], tuple(o for _, o in sw), ("swallow", 0), bool(closes and closes.pop())))
    rr = maximal(lambda o: o[1] and bool(o[2]))
    if rr:
        table.append(([n for n, _ in rr], tuple(o for _, o in rr), ("reraise",), True))
    return table or None


def _render_layers(layers, classes):
    out = []
    for kind, clauses in layers:
        cl = []
        for cs, a, closes in clauses:
            ids = [classes.add_obj(c if c in ("ConnectionError", "Exception", "BaseException") else
                                   f"{_ref_class(c).__module__}.{_ref_class(c).__qualname__}", _ref_class(c)) for c in cs]
            act = f"ASwallow {a[1]}" if a[0] == "swallow" else "AReraise" if a[0] == "reraise" else \
                f"AReraiseUnless {classes.add_obj(a[1], _ref_class(a[1]))}"
            cl.append("{| c_classes := [%s]; c_action := %s; c_closes := %s |}" % ("; ".join(map(str, ids)), act, _b(closes)))
        out.append(("LStar " if kind == "star" else "LPlain ") + "[" + ";\n      ".join(cl) + "]")
    return out


def _render_mcases(cases, classes):
    def cid(name):
        obj = _ref_class(name)
        return classes.add_obj(name if obj.__module__ == "builtins" else f"{obj.__module__}.{obj.__qualname__}", obj)

    def res(r):
        return f"MSuppress {r[1]}" if r[0] == "suppress" else "MPropagate" if r[0] == "propagate" else "MRaiseRest"

    out = []
    for c in cases:
        if c[0] == "class":
            out.append(f"MClass {cid(c[1])} ({res(c[2])})")
        elif c[0] == "default":
            out.append(f"MDefault ({res(c[1])})")
        else:
            inner = "; ".join(f"({cid(n)}, {res(r)})" for n, r in c[5])
            out.append(f"MGroupSplit {cid(c[1])} {cid(c[2])} {c[3]} ({res(c[4])}) [{inner}] ({res(c[6])})")
    return "[" + ";\n    ".join(out) + "]"


def params():
    try:
        return _params()
    except TranslateError:
        raise
    except Exception as exc:      # import errors, unexpected AST shapes hitting an index/attribute error: fail closed
        raise TranslateError(f"translator crashed on the source: {exc.__class__.__name__}: {exc}")


def _params():
    classes = _Classes()
    tcp = _src(SRC + "servers/async_tcp.py")
    notes = []
    try:
        suppress = _tr_tcp_suppress(tcp, classes)
    except TranslateError as exc:
        n = _fallback_tcp_suppress(str(exc))
        suppress = _render_layers(REF_TCP_SUPPRESS, classes)
        notes.append(f"tcp_suppress: behavioural ({n} probes equal the reference table); AST: {exc}")
    else:
        _agree(notes, "tcp_suppress", lambda: _fallback_tcp_suppress(
            "async_tcp.__suppress_and_log_remaining_exception: source and behaviour disagree",
            _parse_layers(suppress, classes), "the table read from its source"))
    def beh_init(a):
        stacks, rer = [], None
        for fl in (0, 1, 2):
            items, esc, thrown = _observe_tcp_init(fl)
            stacks.append(items)
            if "SSuppress" in items:
                rer = True if rer is None else rer             # what was thrown at the yield reached the suppressor
            elif esc is None:
                rer = False                                     # swallowed although no suppressor saw it
            elif rer is None and _contains(esc, thrown):
                rer = True
        rer = bool(rer)
        if a is not None:
            for fl, got in enumerate(stacks):
                want = list(a[fl])
                if [x for x in want if x != "SBind"] != [x for x in got if x != "SBind"] or a[3] != rer:
                    raise TranslateError(f"async_tcp.__client_initializer (flavour {fl}): the source reads as stack {want} "
                                         f"reraises={a[3]}, the real context manager behaves as {got} reraises={rer}")
            return a
        return stacks[0], stacks[1], stacks[2], rer

    st_plain, st_tls, st_tls_nc, reraises = _site("tcp_init_stack / tcp_init_reraises", notes, lambda: _tr_tcp_init(tcp), beh_init)
    try:
        disc_layer, disc_after = _tr_misc_stream(_src(SRC + "servers/misc.py"), classes)
    except TranslateError as exc:
        n, disc_after = _fallback_misc_stream(str(exc))
        (disc_layer,) = _render_layers(REF_TCP_DISCONNECT, classes)
        notes.append(f"tcp_disconnect_hook / misc_disconnect_after_connection: behavioural ({n} probes); AST: {exc}")
    else:
        def misc_agrees():
            _n, after = _fallback_misc_stream("misc.build_lowlevel_stream_server_handler.handler: source and behaviour disagree",
                                              _parse_layers([disc_layer], classes), "the table read from its source")
            if after != disc_after:
                raise TranslateError("misc.build_lowlevel_stream_server_handler.handler: the source reads as 'on_disconnection "
                                     f"registered after on_connection'={disc_after}, the real handler behaves as {after}")
        _agree(notes, "tcp_disconnect_hook / misc_disconnect_after_connection", misc_agrees)
    def agree(name, a, got):
        if a is not None and a != got:
            raise TranslateError(f"{name}: the source reads as {a}, the real code behaves as {got}")
        return got

    stream_tree = _src(SRC + "lowlevel/api_async/servers/stream.py")
    dgram_tree = _src(SRC + "lowlevel/api_async/servers/datagram.py")
    close_first = _site("stream_close_pushed_first", notes, lambda: _tr_stream_task(stream_tree),
                        lambda a: agree("stream.AsyncStreamServer.__client_coroutine (forced close registered first)", a,
                                        _observe_stream_task()))
    rcv = {}

    def receivers_once():
        if not rcv:
            rcv["v"] = _observe_receivers()
        return rcv["v"]

    recv_protected = _site("receiver_next_protected", notes, lambda: _tr_receivers(stream_tree),
                           lambda a: agree("stream._RequestReceiver/_BufferedRequestReceiver.next (consumer.next() protected)", a,
                                           receivers_once()[0]))
    full = _full_domain()
    listener = _site_plain("listener.ListenerSocketAdapter.serve.client_connection_task", notes, classes,
                           lambda: _tr_listener(_src(SRC + "lowlevel/api_async/backend/_asyncio/stream/listener.py"), classes),
                           lambda: _observe_listener(full), REF_LISTENER)
    tls = _site_plain("tls.AsyncTLSListener.serve.tls_handler_wrapper", notes, classes,
                      lambda: _tr_tls(_src(SRC + "lowlevel/api_async/transports/tls.py"), classes),
                      lambda: _observe_tls(full, True) + _observe_tls(full, False), REF_TLS_WRAP)
    adapter_close = _site_plain("socket.AsyncioTransportStreamSocketAdapter.aclose", notes, classes,
                                lambda: _tr_adapter_close(_src(SRC + "lowlevel/api_async/backend/_asyncio/stream/socket.py"), classes),
                                _observe_adapter_close, REF_ADAPTER_CLOSE)
    try:
        udp = _tr_udp_aexit(_src(SRC + "servers/async_udp.py"), classes)
    except TranslateError as exc:
        n = _fallback_udp_aexit(str(exc))
        udp = _render_mcases(REF_UDP_AEXIT, classes)
        notes.append(f"udp_aexit: behavioural ({n} probes equal the reference table); AST: {exc}")
    else:
        _agree(notes, "udp_aexit", lambda: _fallback_udp_aexit(
            "async_udp._ClientContext.__aexit__: source and behaviour disagree", _parse_mcases(udp, classes),
            "the table read from its source"))
    udp_obs = {}

    def udp_once():
        if not udp_obs:
            udp_obs["v"] = _observe_udp_task()
        return udp_obs["v"]

    def beh_udp_task(a):
        fresh = udp_once()[0]
        if a is not None:
            if (a[0] and a[1]) != fresh:
                raise TranslateError(f"datagram.AsyncDatagramServer.__client_coroutine: the source reads as done_in_finally={a[0]} "
                                     f"marks_first={a[1]}, but a fresh handler after every failure is {fresh} on the real server")
            return a
        if not _observe_dgram_initializer():
            raise TranslateError("misc.build_lowlevel_datagram_server_handler.handler: a failure of the request handler does not "
                                 "pass through the initializer's context manager")
        return fresh, fresh

    in_finally, marks_first = _site("udp_done_in_finally / udp_done_marks_first", notes, lambda: _tr_udp_task(dgram_tree),
                                    beh_udp_task)

    def beh_wait(a):
        tcp_conv, udp_conv = receivers_once()[1], udp_once()[1]
        if a is not None:
            for nm, ids, conv, udp_ in (("stream receivers", a[0], tcp_conv, False), ("datagram inner loop", a[1], udp_conv, True)):
                if _leaves_matching(ids, classes, udp_) != conv:
                    raise TranslateError(f"yielded-delay handling ({nm}): the source names classes {[classes.names[i] for i in ids]} "
                                         f"(leaves {_leaves_matching(ids, classes, udp_)}), the real code turns leaves {conv} "
                                         "into a ThrowAction")
            return a
        return (_classes_for_leaves(tcp_conv, classes, False, "stream receivers"),
                _classes_for_leaves(udp_conv, classes, True, "datagram inner loop"))

    # no AST reader for this one: the probe of the real datagram callback decides (unreachable -> fail closed)
    try:
        first_parse_protected = udp_once()[2]
    except TranslateError:
        raise
    except Exception as exc:
        raise TranslateError(f"udp_first_parse_protected: the behavioural probe cannot reach the site: {exc.__class__.__name__}: {exc}")
    tcp_wait, udp_wait = _site("tcp_wait_clauses / udp_wait_clauses", notes,
                               lambda: _tr_wait_clauses(stream_tree, dgram_tree, classes), beh_wait)

    # instance table from the real classes
    tcp_leaves, udp_leaves = _leaf_classes(False), _leaf_classes(True)
    rows = []
    for li, name in enumerate(LEAF_NAMES):
        for ci, obj in enumerate(classes.objs):
            a, b = issubclass(tcp_leaves[li], obj), issubclass(udp_leaves[li], obj)
            if a != b:
                raise TranslateError(f"stream and datagram parse errors differ w.r.t. {classes.names[ci]}")
            if a:
                rows.append(f"  | {name}, {ci} => true")
    eg = [ci for ci, obj in enumerate(classes.objs) if issubclass(ExceptionGroup, obj)]
    beg = [ci for ci, obj in enumerate(classes.objs) if issubclass(BaseExceptionGroup, obj)]

    def table(ids):
        return "match c with " + " | ".join(f"{i} => true" for i in ids) + " | _ => false end" if ids else "false"

    out = [
        "From Coq Require Import List Bool ZArith.",
        "From EN Require Import Conc.ExcKinds.",
        "Import ListNotations.",
        "Open Scope Z_scope.",
        "(* classes named by the clauses: " + ", ".join(f"{i}={n}" for i, n in enumerate(classes.names)) + " *)",
    ] + ["(* " + x.replace("(*", "( *").replace("*)", "* )") + " *)" for x in notes] + [
        "Definition C_BaseException : cls := 0%nat.",
        "Definition C_Exception : cls := 1%nat.",
        "Definition C_Cancelled : cls := 2%nat.",
        "Definition C_OSError : cls := 3%nat.",
        "Definition isinst (k : leaf) (c : cls) : bool :=\n  match k, c with\n" + "\n".join(rows).replace(" => true", "%nat => true")
        + "\n  | _, _ => false\n  end.",
        "Definition isinst_eg (c : cls) : bool := (" + table(eg) + ")%nat.",
        "Definition isinst_beg (c : cls) : bool := (" + table(beg) + ")%nat.",
        "Local Open Scope nat_scope.",
        "Definition tcp_suppress : list layer :=\n  [" + ";\n   ".join(suppress) + "].",
        "Definition tcp_disconnect_hook : list layer :=\n  [" + disc_layer + "].",
        "Definition tcp_init_stack (f : flavour) : list stack_item :=\n  match f with\n  | FPlain => [" + "; ".join(st_plain)
        + "]\n  | FTlsCompat => [" + "; ".join(st_tls) + "]\n  | FTls => [" + "; ".join(st_tls_nc) + "]\n  end.",
        "Definition tcp_wait_clauses : list cls := [" + "; ".join(map(str, tcp_wait)) + "].",
        "Definition udp_wait_clauses : list cls := [" + "; ".join(map(str, udp_wait)) + "].",
        f"Definition tcp_init_reraises : bool := {_b(reraises)}.",
        f"Definition misc_disconnect_after_connection : bool := {_b(disc_after)}.",
        f"Definition stream_close_pushed_first : bool := {_b(close_first)}.",
        f"Definition receiver_next_protected : bool := {_b(recv_protected)}.",
        "Definition listener_connect : list layer :=\n  [" + listener + "].",
        "Definition tls_wrap : list layer :=\n  [" + tls + "].",
        "Definition adapter_close : list layer :=\n  [" + adapter_close + "].",
        "Definition udp_aexit : list mcase :=\n  " + udp + ".",
        f"Definition udp_done_in_finally : bool := {_b(in_finally)}.",
        f"Definition udp_done_marks_first : bool := {_b(marks_first)}.",
        f"Definition udp_first_parse_protected : bool := {_b(first_parse_protected)}.",
    ]
    text = "\n".join(out) + "\n"
    # numbers inside clause records are nat (cls) except the Z log codes: make log codes explicit
    import re
    text = re.sub(r"ASwallow (\d+)", r"ASwallow \1%Z", text)
    text = re.sub(r"MSuppress (\d+)", r"MSuppress \1%Z", text)
    text = re.sub(r"(MGroupSplit \d+ \d+) (\d+)", r"\1 \2%Z", text)
    return text


# ----------------------------------------------------------------------------------------------------------------
# implementation side: a "world" = deterministic loop + REAL server + two healthy clients; one faulty client per case
# ----------------------------------------------------------------------------------------------------------------
CERT_DIR = os.path.join(os.path.dirname(os.path.abspath(__file__)), "certs")
SETTLE = 4.0          # virtual seconds left to the server after the fault (> handshake and TLS shutdown timeouts)
REPLY_TIMEOUT = 5.0   # virtual
REAL_GRACE = 0.05     # real seconds: a NEGATIVE outcome (no reply / not closed) is re-checked once after this real wait


class _Collector(logging.Handler):
    def __init__(self, sink):
        super().__init__(level=logging.DEBUG)
        self.sink = sink

    def emit(self, record):
        msg = record.msg if isinstance(record.msg, str) else str(record.msg)
        code = _log_code(msg)
        if code:
            self.sink.append(code)


class _Script:
    def __init__(self):
        self.active = False
        self.pos = -1
        self.e1 = self.e2 = None
        self.nested = False
        self.hooks = []
        self.gens = 0
        self.udp = False

    def exc1(self):
        return make_exc(self.e1, self.udp, self.nested)

    def exc2(self):
        return make_exc(self.e2, self.udp, self.nested)


def _stream_handler(world):
    from easynetwork.exceptions import StreamProtocolParseError
    from easynetwork.servers.handlers import AsyncStreamRequestHandler

    class Handler(AsyncStreamRequestHandler):
        def __init__(self):
            self.faulty = None

        def on_connection(self, client):
            s = world.script
            if not s.active or self.faulty is not None:
                return self._ok()
            self.faulty = client
            s.hooks.append(1)
            if s.pos in (1, 2, 11):
                return self._conn_gen(s)
            return self._conn_coro(s)

        async def _ok(self):
            return None

        async def _conn_coro(self, s):
            if s.pos == 0:
                raise s.exc1()

        async def _conn_gen(self, s):
            if s.pos == 1:
                raise s.exc1()
            _req = yield
            s.hooks.append(3)
            raise s.exc1()

        async def handle(self, client):
            s = world.script
            if client is not self.faulty:
                req = yield
                await client.send_packet("re:" + req)
                return
            s.gens += 1
            s.hooks.append(2)
            if s.pos == 3 or (s.pos == 7 and s.gens == 2):
                raise s.exc1()
            if s.pos == 5:
                try:
                    req = yield
                except StreamProtocolParseError:
                    s.hooks.append(5)
                    if s.e1 == [0, 5]:
                        raise
                    raise s.exc1()
            elif s.pos == 6:
                try:
                    req = yield 0.5
                except TimeoutError:
                    s.hooks.append(5)
                    if s.e1 == [0, 4]:
                        raise
                    raise s.exc1()
            else:
                req = yield
            s.hooks.append(3)
            if s.pos == 4:
                raise s.exc1()
            await client.send_packet("re:" + req)
            if s.pos == 8:
                req = yield
                s.hooks.append(3)
                raise s.exc1()
            if s.pos >= 20:
                try:
                    req = yield DELAYS[s.pos - 20]
                except BaseException as thrown:
                    if isinstance(thrown, (GeneratorExit, asyncio.CancelledError)):
                        raise
                    s.hooks.append(5)
                    raise s.exc1()
                s.hooks.append(3)
                raise s.exc1()
            if s.pos == 10:
                try:
                    req = yield
                except StreamProtocolParseError:
                    s.hooks.append(5)
                    if s.e1 == [0, 5]:
                        raise
                    raise s.exc1()

        async def on_disconnection(self, client):
            s = world.script
            if client is not self.faulty:
                return
            s.hooks.append(4)
            if s.pos == 9:
                raise s.exc1()
            if s.e2:
                raise s.exc2()

    return Handler()


def _datagram_handler(world):
    from easynetwork.exceptions import DatagramProtocolParseError
    from easynetwork.servers.handlers import AsyncDatagramRequestHandler, INETClientAttribute

    class Handler(AsyncDatagramRequestHandler):
        async def handle(self, client):
            s = world.script
            port = client.extra(INETClientAttribute.remote_address).port
            if not s.active or port != world.f_port:
                req = yield
                await client.send_packet("re:" + req)
                return
            s.gens += 1
            s.hooks.append(2)
            if s.gens >= (5 if s.pos == 7 else 4 if s.pos in (5, 6) else 2):
                req = yield
                s.hooks.append(3)
                await client.send_packet("re:" + req)
                return
            if s.pos in (0, 5):
                raise s.exc1()
            if s.pos == 8:
                # the first datagram of this run makes protocol.build_packet_from_datagram() crash (not a parse error)
                try:
                    req = yield
                except BaseException as thrown:
                    if isinstance(thrown, (GeneratorExit, asyncio.CancelledError)):
                        raise
                    s.hooks.append(5)
                    raise s.exc1()
            else:
                req = yield
            s.hooks.append(3)
            if s.pos == 7 and s.gens == 1:
                await asyncio.sleep(0.3)           # the next datagrams of this address are queued meanwhile
                raise s.exc1()
            if s.pos in (1, 6, 7):
                raise s.exc1()                     # without awaiting anything
            await client.send_packet("re:" + req)
            if s.pos >= 20:
                try:
                    req = yield DELAYS[s.pos - 20]
                except BaseException as thrown:
                    if isinstance(thrown, (GeneratorExit, asyncio.CancelledError)):
                        raise
                    s.hooks.append(5)
                    raise s.exc1()
                s.hooks.append(3)
                raise s.exc1()
            if s.pos == 2:
                try:
                    req = yield
                except DatagramProtocolParseError:
                    s.hooks.append(5)
                    if s.e1 == [0, 5]:
                        raise
                    raise s.exc1()
            elif s.pos == 3:
                try:
                    req = yield 0.5
                except TimeoutError:
                    s.hooks.append(5)
                    if s.e1 == [0, 4]:
                        raise
                    raise s.exc1()
            elif s.pos == 9:
                try:
                    req = yield
                except BaseException as thrown:
                    if isinstance(thrown, (GeneratorExit, asyncio.CancelledError)):
                        raise
                    s.hooks.append(5)
                    raise s.exc1()
            else:
                req = yield
            s.hooks.append(3)
            raise s.exc1()

    return Handler()


def _crashing_serializer():
    """a user serializer that does not translate every error: the datagram b"CRASH" makes deserialize() raise ValueError
    (everything else is the stock line serializer)"""
    from easynetwork.serializers.line import StringLineSerializer

    class CrashingLineSerializer(StringLineSerializer):
        def deserialize(self, data):
            if bytes(data).strip() == b"CRASH":
                raise ValueError("serializer crashed on client data")
            return super().deserialize(data)

    return CrashingLineSerializer()


_world_seq = itertools.count()


class World:
    def __init__(self, srv):
        self.srv = srv
        self.script = _Script()
        self.logs = []
        self.cases = 0
        self.dead = False
        self.inject = {}         # "connect" / "wrap" / "aclose" -> exception spec to raise once
        self.f_port = None
        self.loop = detloop.DetLoop()
        self.loop.set_exception_handler(lambda loop, ctx: None)
        if srv == 4:
            self.loop.set_task_factory(asyncio.eager_task_factory)      # world dimension: eager tasks (UDP server)
        self.name = f"c17.world{next(_world_seq)}"
        self.logger = logging.getLogger(self.name)
        self.logger.handlers[:] = [_Collector(self.logs)]
        self.logger.setLevel(logging.DEBUG)
        self.logger.propagate = False
        for quiet in ("easynetwork", "asyncio"):
            lg = logging.getLogger(quiet)
            if not any(isinstance(h, logging.NullHandler) for h in lg.handlers):
                lg.addHandler(logging.NullHandler())
            lg.propagate = False
        self._patch()
        asyncio.set_event_loop(self.loop)
        try:
            self.loop.run_until_complete(self._start())
        finally:
            asyncio.set_event_loop(None)

    # -- injection points (process-wide patches; they only act when a world asked for it)
    _patched = False
    current = None

    @classmethod
    def _patch(cls):
        if cls._patched:
            return
        cls._patched = True
        from easynetwork.lowlevel.api_async.backend._asyncio.stream import listener as _l
        from easynetwork.lowlevel.api_async.servers import stream as _s
        from easynetwork.lowlevel.api_async.transports import tls as _t

        orig_connect = _l.AcceptedSocketFactory.connect

        async def connect(self, backend, sock):
            w = World.current
            if w is not None and "connect" in w.inject:
                raise make_exc(w.inject.pop("connect"))
            return await orig_connect(self, backend, sock)

        _l.AcceptedSocketFactory.connect = connect

        orig_wrap = _t.AsyncTLSStreamTransport.wrap.__func__

        async def wrap(cls_, *a, **kw):
            w = World.current
            if w is not None and "wrap" in w.inject:
                raise make_exc(w.inject.pop("wrap"))
            return await orig_wrap(cls_, *a, **kw)

        _t.AsyncTLSStreamTransport.wrap = classmethod(wrap)

        orig_aclose = _s.ConnectedStreamClient.aclose

        async def aclose(self):
            w = World.current
            if w is not None and "aclose" in w.inject:
                raise make_exc(w.inject.pop("aclose"))
            return await orig_aclose(self)

        _s.ConnectedStreamClient.aclose = aclose

        import asyncio.selector_events as _se
        orig_write_eof = _se._SelectorSocketTransport.write_eof

        def write_eof(self):
            w = World.current
            if w is not None and "write_eof" in w.inject:
                raise w.inject.pop("write_eof")
            return orig_write_eof(self)

        _se._SelectorSocketTransport.write_eof = write_eof

    async def _start(self):
        from easynetwork.protocol import DatagramProtocol, StreamProtocol
        from easynetwork.serializers.line import StringLineSerializer
        if self.srv in (2, 4):
            from easynetwork.servers.async_udp import AsyncUDPNetworkServer
            self.server = AsyncUDPNetworkServer("127.0.0.1", 0, DatagramProtocol(_crashing_serializer()),
                                                _datagram_handler(self), logger=self.logger)
        else:
            from easynetwork.servers.async_tcp import AsyncTCPNetworkServer
            kw = {}
            self.cctx = None
            if self.srv in (1, 3):
                sctx = ssl.SSLContext(ssl.PROTOCOL_TLS_SERVER)
                sctx.load_cert_chain(os.path.join(CERT_DIR, "c17_server.crt"), os.path.join(CERT_DIR, "c17_server.key"))
                self.cctx = ssl.SSLContext(ssl.PROTOCOL_TLS_CLIENT)
                self.cctx.load_verify_locations(os.path.join(CERT_DIR, "c17_server.crt"))
                kw = dict(ssl=sctx, ssl_handshake_timeout=1.0, ssl_shutdown_timeout=1.0,
                          ssl_standard_compatible=(self.srv == 1))
            self.handler = _stream_handler(self)
            # plain world: copying receiver (_RequestReceiver); TLS world: buffer-filling one (_BufferedRequestReceiver)
            from easynetwork.protocol import BufferedStreamProtocol
            proto = BufferedStreamProtocol(StringLineSerializer()) if self.srv == 1 else StreamProtocol(StringLineSerializer())
            self.server = AsyncTCPNetworkServer("127.0.0.1", 0, proto, self.handler,
                                                logger=self.logger, **kw)
        up = asyncio.Event()
        self.task = asyncio.ensure_future(self.server.serve_forever(is_up_event=up))
        await asyncio.wait_for(up.wait(), 5)
        a = self.server.get_addresses()[0]
        self.addr = (a.host, a.port)
        self.healthy = [await self._connect(), await self._connect()]
        for c in self.healthy:
            if not await self._ping(c, "hello"):
                raise RuntimeError("healthy client not answered at start")

    # -- clients
    async def _connect(self, tls=None):
        if self.srv in (2, 4):
            s = socket.socket(socket.AF_INET, socket.SOCK_DGRAM)
            s.setblocking(False)
            s.bind(("127.0.0.1", 0))
            return s
        use_tls = (self.srv in (1, 3)) if tls is None else tls
        if use_tls:
            return await asyncio.wait_for(asyncio.open_connection(*self.addr, ssl=self.cctx, server_hostname="localhost"), 5)
        return await asyncio.wait_for(asyncio.open_connection(*self.addr), 5)

    async def _send(self, c, line: bytes):
        if self.srv in (2, 4):
            c.sendto(line, self.addr)
        else:
            c[1].write(line + b"\n")

    async def _recv(self, c, _again=False):
        """One reply line / datagram, b'' for EOF or reset, None for nothing within REPLY_TIMEOUT (virtual)."""
        try:
            if self.srv in (2, 4):
                data = await asyncio.wait_for(self.loop.sock_recv(c, 4096), REPLY_TIMEOUT)
                return data
            return await asyncio.wait_for(c[0].readline(), REPLY_TIMEOUT)
        except (TimeoutError, asyncio.TimeoutError):
            if _again:
                return None
            # The virtual clock only advances when no socket is readable, and loopback delivery is synchronous with the
            # sender unless the kernel defers it (ksoftirqd under heavy network load).  A missing reply is therefore
            # re-checked once after a REAL wait on the client's socket; this path is only taken for negative outcomes.
            sock = c if self.srv in (2, 4) else c[1].get_extra_info("socket")
            with contextlib.suppress(Exception):
                import select as _select
                _select.select([sock], [], [], REAL_GRACE)
            return await self._recv(c, _again=True)
        except (ConnectionError, ssl.SSLError, OSError):
            return b""

    async def _ping(self, c, word):
        await self._send(c, word.encode())
        r = await self._recv(c)
        return r is not None and r.rstrip(b"\n") == b"re:" + word.encode()

    def _close_client(self, c):
        with contextlib.suppress(Exception):
            if self.srv in (2, 4):
                c.close()
            else:
                c[1].close()

    # -- one case
    def run_case(self, inp):
        World.current = self
        asyncio.set_event_loop(self.loop)
        try:
            return self.loop.run_until_complete(asyncio.wait_for(self._case(inp), 600))
        except BaseException:
            self.dead = True
            raise
        finally:
            World.current = None
            asyncio.set_event_loop(None)

    async def _case(self, inp):
        self.cases += 1
        srv, scen = inp[0], inp[1]
        s = self.script = _Script()
        s.udp = srv in (2, 4)
        del self.logs[:]
        self.inject.clear()
        if srv not in (2, 4):
            self.handler.faulty = None
        flag = 0
        f = None
        try:
            if scen == 0:
                s.active, s.pos, s.e1, s.e2 = True, inp[2], inp[3], (inp[4][0] if inp[4] else None)
                s.nested = bool(inp[5]) if len(inp) > 5 else False
                f = await self._connect()
                if srv in (2, 4):
                    self.f_port = f.getsockname()[1]
                    flag = await self._udp_script(f, s.pos)
                else:
                    flag = await self._tcp_script(f, s.pos)
            elif scen == 1:
                s.active = True          # a connection that reaches on_connection would be recorded (it must not)
                stage, exc, real = inp[2], inp[3], (inp[4] if len(inp) > 4 else 0)
                flag = await self._setup_fault(stage, exc, real)
            elif scen == 3:
                # the handler fails after a request (peer still connected) and the socket shutdown of the final forced
                # close raises: inp = [srv, 3, leaf, exc1, errno index]
                s.active, s.pos, s.e1, s.e2 = True, 4, inp[3], None
                self.inject["write_eof"] = make_close_error(inp[2], inp[4] if len(inp) > 4 else 0)
                f = await self._connect()
                flag = await self._tcp_script(f, 4)
                self.inject.pop("write_eof", None)
            elif scen == 2:
                s.active, s.pos = True, -1
                self.inject["aclose"] = inp[2]
                f = await self._connect()
                await self._send(f, b"x")
                await self._recv(f)
                f[1].close()
                await asyncio.sleep(SETTLE)
                flag = 1
        finally:
            s.active = False
        alive = [int(await self._ping(c, "ping")) for c in self.healthy]
        crashed = int(self.task.done())
        if crashed:
            self.dead = True
            with contextlib.suppress(BaseException):
                self.task.exception()
        if f is not None:
            self._close_client(f)
        return [alive[0], alive[1], crashed, int(flag), list(s.hooks), list(self.logs)]

    async def _closed(self, f):
        """the faulty TCP connection is closed by the server: EOF or reset within the settle time"""
        deadline = self.loop.time() + SETTLE
        closed = 0
        try:
            while True:
                data = await asyncio.wait_for(f[0].read(4096), max(0.001, deadline - self.loop.time()))
                if not data:
                    closed = 1
                    break
        except (TimeoutError, asyncio.TimeoutError):
            closed = 0
        except (ConnectionError, ssl.SSLError, OSError):
            closed = 1
        rest = deadline - self.loop.time()
        if rest > 0:
            await asyncio.sleep(rest)
        return closed

    async def _tcp_script(self, f, pos):
        if pos in (2, 4):
            await self._send(f, b"x")
        elif pos == 5:
            await self._send(f, b"\xff\xfe")
        elif pos == 11:
            f[1].close()                      # the peer leaves while the on_connection() generator waits for its first request
            await asyncio.sleep(SETTLE)
            return 1
        elif pos >= 20:
            await self._send(f, b"x")
            await self._recv(f)
            if pos - 20 in DELAY_WAITS:
                await self._send(f, b"y")
        elif pos == 10:
            # a valid request and a malformed frame in ONE chunk: the second one is already buffered when handle() yields again
            await self._send(f, b"x\n\xff\xfe")
            await self._recv(f)
        elif pos in (7, 8, 9):
            await self._send(f, b"x")
            await self._recv(f)
            if pos == 8:
                await self._send(f, b"y")
            if pos == 9:
                f[1].close()
                await asyncio.sleep(SETTLE)
                return 1
        return await self._closed(f)

    async def _udp_script(self, f, pos):
        await self._send(f, b"CRASH" if pos == 8 else b"x")
        if pos == 9:
            await self._recv(f)
            await self._send(f, b"CRASH")
        if pos in (5, 6, 7):
            await self._send(f, b"y")              # a burst: more datagrams of the same address right behind the first one
            await self._send(f, b"w")
            if pos == 7:
                await self._send(f, b"v")
        if pos >= 20:
            await self._recv(f)
            if pos - 20 in DELAY_WAITS:
                await self._send(f, b"y")
        if pos in (2, 3, 4):
            await self._recv(f)
            if pos == 2:
                await self._send(f, b"\xff\xfe")
            elif pos == 4:
                await self._send(f, b"y")
        await asyncio.sleep(SETTLE)
        # later datagram from the same address: fresh handler?
        return await self._ping(f, "z")

    async def _setup_fault(self, stage, exc, real):
        if real == 0:
            self.inject["connect" if stage == 0 else "wrap"] = exc
            f = await self._connect(tls=False)
            closed = await self._closed(f)
            self._close_client(f)
            return closed
        if real == 2:      # RST right after the connection is established
            sk = socket.socket()
            sk.connect(self.addr)
            sk.setsockopt(socket.SOL_SOCKET, socket.SO_LINGER, struct.pack("ii", 1, 0))
            sk.close()
            await asyncio.sleep(SETTLE)
            return 1
        f = await self._connect(tls=False)
        if real == 3:      # garbage instead of a ClientHello
            f[1].write(b"GET / HTTP/1.0\r\n\r\n")
        elif real == 5:    # peer closes during the handshake
            f[1].close()
            await asyncio.sleep(SETTLE)
            return 1
        # real == 4: stalled handshake (nothing is sent): the handshake timeout must fire
        closed = await self._closed(f)
        self._close_client(f)
        return closed

    def close(self):
        asyncio.set_event_loop(self.loop)
        try:
            async def stop():
                for c in self.healthy:
                    self._close_client(c)
                with contextlib.suppress(BaseException):
                    await asyncio.wait_for(self.server.server_close(), 5)
                with contextlib.suppress(BaseException):
                    await asyncio.wait_for(self.task, 5)
            with contextlib.suppress(BaseException):
                self.loop.run_until_complete(stop())
            pending = [t for t in asyncio.all_tasks(self.loop) if not t.done()]
            for t in pending:
                t.cancel()
            if pending:
                with contextlib.suppress(BaseException):
                    self.loop.run_until_complete(asyncio.gather(*pending, return_exceptions=True))
        finally:
            asyncio.set_event_loop(None)
            with contextlib.suppress(BaseException):
                self.loop.close()
            self.logger.handlers[:] = []


_worlds = {}
WORLD_MAX_CASES = 150


def _world(srv):
    w = _worlds.get(srv)
    if w is not None and (w.dead or w.cases >= WORLD_MAX_CASES):
        w.close()
        w = None
    if w is None:
        w = _worlds[srv] = World(srv)
    return w


def run_impl(inp):
    import sys
    import warnings
    sys.unraisablehook = lambda *a: None     # transports of a crashed world are collected after their loop is closed
    with warnings.catch_warnings():
        warnings.simplefilter("ignore")
        return _world(inp[0]).run_case(inp)


# ----------------------------------------------------------------------------------------------------------------
# cases
# ----------------------------------------------------------------------------------------------------------------
DELAYS = [None, 0, 0.5, -1, float('inf'), float('nan'), 'abc', 10 ** 400]      # codes 0..7: positions 20 + code
DELAY_WAITS = {0, 4}             # delays with which the receiver simply waits for the next request
TCP_POSITIONS = list(range(12)) + [20 + d for d in range(8)]
UDP_POSITIONS = list(range(10)) + [20 + d for d in range(8)]
HARD_TCP_POS = {5, 6, 7, 8, 9, 10, 11} | {20 + d for d in range(8)}
HARD_UDP_POS = {2, 3, 4, 5, 6, 7, 8, 9} | {20 + d for d in range(8)}


def _naked():
    return [[0, k] for k in range(N_LEAVES)]


def _groups(max_size):
    out = []
    for n in range(1, max_size + 1):
        for sub in itertools.combinations(EXC_LEAVES, n):
            out.append([1, list(sub)])
    if max_size < len(EXC_LEAVES):
        out.append([1, list(EXC_LEAVES)])
    out += [[1, [6]], [1, [0, 6]], [1, [3, 6]], [1, [2, 3, 6]]]          # BaseExceptionGroups (outside the property)
    out += [[1, [0, 0]], [1, [3, 2, 3]], [1, [2, 0, 2, 0]]]              # non-canonical: duplicates / other order
    return out


def _has_fatal(spec):
    if not spec:
        return False
    return spec[1] == 6 if spec[0] == 0 else 6 in spec[1]


def _tags(srv, scen, pos, e1, e2, nested, extra=()):
    t = [("tcp", "tls", "udp", "tls-nsc", "udp-eager")[srv], f"scen{scen}"]
    if scen == 0:
        t.append(f"pos{pos}")
    if e1:
        t.append("naked" if e1[0] == 0 else f"group{min(len(e1[1]), 4)}")
        if _has_fatal(e1) or _has_fatal(e2):
            t.append("base-exception")
    if e2:
        t.append("second-fault")
    if nested:
        t.append("nested-group")
    return t + list(extra)


def _case(srv, pos, e1, e2=None, nested=0):
    hard = (pos in (HARD_UDP_POS if srv in (2, 4) else HARD_TCP_POS)) or e1[0] == 1 or bool(e2)
    return dict(input=[srv, 0, pos, e1, [e2] if e2 else [], nested], tags=_tags(srv, 0, pos, e1, e2, nested), nontrivial=hard)


def cases(tier, rng, escalate):
    thorough = tier == "thorough" or escalate
    gmax = 6 if thorough else 2
    excs = _naked() + _groups(gmax)
    # 1. every kind x every position, one fault
    few = _naked() + [[1, [3, 0]], [1, [2, 3]], [1, [0, 6]]]
    for srv in (0, 1, 3):
        for pos in TCP_POSITIONS:
            for e1 in (excs if thorough or pos < 20 else few):
                yield _case(srv, pos, e1)
    for usrv in (2, 4):                                  # 4 = the same UDP server under asyncio.eager_task_factory
        for pos in UDP_POSITIONS:
            for e1 in (excs if thorough or (pos < 20 and usrv == 2) or pos in (5, 6, 7) else few):
                yield _case(usrv, pos, e1)
    # the socket shutdown of the final forced close raises (every OSError flavour, by errno) after a handler fault
    for srv in (0, 3):
        for leaf, idx in [(1, 0), (1, 1), (1, 2), (2, 3), (2, 4), (4, 5), (0, 0), (6, 0)]:
            for e1 in few:
                yield dict(input=[srv, 3, leaf, e1, idx], tags=_tags(srv, 3, 0, e1, None, 0, ["final-close", f"errno-{CLOSE_ERRNOS[idx]}"]),
                           nontrivial=True)
    # 2. a second fault raised by on_disconnection
    firsts = _naked() + [[1, [3, 0]], [1, [2]]] if thorough else [[0, 0], [0, 2], [0, 3], [0, 6], [1, [3, 0]]]
    seconds = excs if thorough else _naked() + [[1, [2]], [1, [3, 0]], [1, [2, 3]], [1, [0, 6]], [1, [4, 5, 1]]]
    for srv in (0, 1, 3):
        for pos in (3, 4, 5, 6, 7, 8, 10, 11, 20, 25, 26) if thorough or srv != 3 else (4, 9, 11, 25):
            for e1 in firsts:
                for e2 in seconds:
                    yield _case(srv, pos, e1, e2)
    # 3. nested groups (the model abstracts a group to its leaves)
    for srv in (0, 1, 2, 3):
        for pos in ((1, 4) if srv == 2 else (0, 4, 9)):
            for e1 in excs:
                if e1[0] == 1 and len(e1[1]) >= 2:
                    yield _case(srv, pos, e1, None, 1)
    # 4. set-up faults: injected into the accepted-socket factory / the TLS wrap, and real ones
    sexcs = _naked() + [[1, [0]], [1, [2, 3]], [1, [1, 4]], [1, [0, 6]], [1, list(EXC_LEAVES)]]
    for srv in (0, 1, 3):
        for e in sexcs:
            yield dict(input=[srv, 1, 0, e, 0], tags=_tags(srv, 1, 0, e, None, 0, ["setup-connect"]), nontrivial=True)
        yield dict(input=[srv, 1, 0, [0, 1], 2], tags=_tags(srv, 1, 0, [0, 1], None, 0, ["setup-real-rst"]), nontrivial=True)
    for srv in (1, 3):
        for e in sexcs:
            yield dict(input=[srv, 1, 1, e, 0], tags=_tags(srv, 1, 0, e, None, 0, ["setup-handshake"]), nontrivial=True)
        for real, e, name in ((3, [0, 1], "garbage"), (4, [0, 4], "stalled"), (5, [0, 2], "eof")):
            for _ in range(3 if thorough else 1):
                yield dict(input=[srv, 1, 1, e, real], tags=_tags(srv, 1, 0, e, None, 0, [f"setup-real-{name}"]), nontrivial=True)
    # 5. the transport close inside aclosing() fails (TLS): an exit callback registered after the suppressor
    for e in sexcs:
        yield dict(input=[1, 2, e], tags=_tags(1, 2, 0, e, None, 0, ["exit-callback"]), nontrivial=True)
    # 6. random volume: arbitrary leaf multisets, random second faults
    n = 6000 if thorough else 700

    def rnd_exc(allow_fatal):
        leaves = list(range(N_LEAVES)) if allow_fatal and rng.random() < 0.08 else EXC_LEAVES
        if rng.random() < 0.35:
            return [0, rng.choice(leaves)]
        return [1, [rng.choice(leaves) for _ in range(rng.randint(1, 5))]]

    for _ in range(n):
        srv = rng.choice((0, 0, 1, 2, 3, 4))
        e1 = rnd_exc(True)
        if srv in (2, 4):
            c = _case(srv, rng.choice(UDP_POSITIONS), e1, None, rng.randint(0, 1))
        else:
            pos = rng.choice(TCP_POSITIONS)
            e2 = rnd_exc(True) if pos not in (0, 1, 2, 9) and rng.random() < 0.5 else None
            c = _case(srv, pos, e1, e2, rng.randint(0, 1))
        c["tags"].append("random")
        yield c


# ----------------------------------------------------------------------------------------------------------------
# the property, stated directly on the implementation
# ----------------------------------------------------------------------------------------------------------------
def oracle(inp):
    srv, scen = inp[0], inp[1]
    if scen == 0:
        specs = [inp[3]] + list(inp[4])
    elif scen == 1:
        specs = [inp[3]]
    elif scen == 3:
        if inp[2] in (0, 6):
            return None                  # not an OSError at the socket shutdown: outside the statement
        specs = [inp[3]]
    else:
        specs = [inp[2]]
    if any(_has_fatal(s) for s in specs):
        return None                      # BaseException-only kinds are outside the statement
    out = run_impl(inp)
    alive_a, alive_b, crashed, flag, hooks, _logs = out
    who = ("TCP", "TLS", "UDP", "TLS-nsc", "UDP-eager")[srv]
    what = f"{who} scen={scen} " + (f"pos={inp[2]} " if scen == 0 else "") + f"fault={specs}"
    if crashed:
        return f"server stopped serving: the client task let an exception escape ({what})"
    if not (alive_a and alive_b):
        return f"healthy client no longer answered ({what})"
    if srv in (2, 4):
        if not flag:
            return f"later datagram of the failing UDP client was not handled by a fresh handler ({what})"
        return None
    if not flag:
        return f"failing client's connection was not closed ({what})"
    if scen == 0:
        connected = inp[2] not in (0, 1, 2, 11)
        if (4 in hooks) != connected:
            return f"on_disconnection ran={4 in hooks} but on_connection completed={connected} ({what})"
    if scen == 1 and hooks:
        return f"request handler hooks ran for a connection whose set-up failed ({what})"
    return None


def signature(inp, failure):
    return failure.split(" (")[0]


def shrink(inp):
    if inp[1] != 0:
        return
    srv, scen, pos, e1, e2, nested = inp[:6]
    if nested:
        yield [srv, scen, pos, e1, e2, 0]
    if e2:
        yield [srv, scen, pos, e1, [], nested]
        if e2[0][0] == 1:
            for i in range(len(e2[0][1])):
                rest = e2[0][1][:i] + e2[0][1][i + 1:]
                if rest:
                    yield [srv, scen, pos, e1, [[1, rest]], nested]
            if len(e2[0][1]) == 1:
                yield [srv, scen, pos, e1, [[0, e2[0][1][0]]], nested]
    if e1[0] == 1:
        for i in range(len(e1[1])):
            rest = e1[1][:i] + e1[1][i + 1:]
            if rest:
                yield [srv, scen, pos, [1, rest], e2, nested]
        if len(e1[1]) == 1:
            yield [srv, scen, pos, [0, e1[1][0]], e2, nested]
